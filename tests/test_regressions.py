"""Plain pytest file: replays the stored counterexamples of the repaired defects WITHOUT the explorer.
Each file in /verif/regressions was produced by a check on a tree with one fix reverted; on the
repaired tree the same state must evaluate cleanly (twice, with identical observations).

    cd /verif && PYTHONHASHSEED=0 PYTHONPATH=/verif /venv/bin/python -m pytest -q tests/test_regressions.py
"""
import glob
import os

import pytest

ROOT = os.path.dirname(os.path.dirname(os.path.abspath(__file__)))
FILES = sorted(glob.glob(os.path.join(ROOT, "regressions", "*.json")))


@pytest.mark.parametrize("path", FILES, ids=[os.path.basename(f) for f in FILES])
def test_replay_is_clean(path):
    from mc import explore

    d, outcome = explore.replay(path)
    assert not outcome.violations, f"{d['signature']} is back: {outcome.violations[:1]}"
