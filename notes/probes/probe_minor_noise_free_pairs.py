import warnings; warnings.filterwarnings("ignore")
import logbook; logbook.NullHandler().push_application()
import sys, time, collections, itertools, random
exec(open("t11.py").read().split("majors=[a for a in g.alleles]")[0])
from aldy.solutions import MajorSolution, SolvedAllele
minors=[(a,mi) for a,al in g.alleles.items() for mi in al.minors]
pairs=list(itertools.combinations_with_replacement(minors,2))
random.seed(1)
if len(pairs)>400: pairs=random.sample(pairs,400)
t=time.time(); bad=0; n=0
for x,y in pairs:
    cn,cov=plant([x,y])
    major=MajorSolution(0,collections.Counter([SolvedAllele(g,x[0]),SolvedAllele(g,y[0])]),cn,[])
    try:
        sols=estimate_minor(g,cov,[major],"any")
    except Exception as e:
        print("EXC",x,y,type(e),e); bad+=1; continue
    n+=1
    def vs(a,mi,added=(),missing=()):
        s=set(g.alleles[a].func_muts)|set(g.alleles[a].minors[mi].neutral_muts)|set(added)
        return s-set(missing)
    want=collections.Counter(m for (a,mi) in [x,y] for m in vs(a,mi))
    ok=False
    for s in sols:
        gotc=collections.Counter(m for sa in s.solution for m in vs(sa.major,sa.minor,sa.added,sa.missing))
        if gotc==want: ok=True
    if not ok:
        bad+=1
        if bad<8: print("MISS",x,y,[[(sa.minor,sa.added,sa.missing) for sa in s.solution] for s in sols], [round(s.score,3) for s in sols])
print(name,"n",n,"bad",bad,time.time()-t)
