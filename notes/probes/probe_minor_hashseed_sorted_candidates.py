import os,subprocess,sys
code='''
import warnings; warnings.filterwarnings("ignore")
import logbook; logbook.NullHandler().push_application()
import collections
from aldy.gene import Gene, Mutation
from aldy.common import script_path
from aldy.profile import Profile
from aldy.major import estimate_major
from aldy.minor import estimate_minor
from aldy.solutions import CNSolution
from aldy.coverage import Coverage
g=Gene(script_path("aldy.tests.resources/toy.yml"),genome="hg19")
byv={g.mutations[m][3:5]:Mutation(*m) for m in g.mutations}
abstract={(104,'T>A'):(10,10),(110,'delAC'):(20,10),(114,'T>A'):(15,5),(118,'insTT'):(0,20),(147,'insA'):(10,20),(150,'C>T'):(15,0)}
p=Profile("t"); p.gap=0.1
tab=collections.defaultdict(dict)
for v,(k,r) in abstract.items():
    m=byv[v]
    if k: tab[m.pos][m.op]=[(60,60)]*k
    if r: tab[m.pos]["_"]=[(60,60)]*r
cov=Coverage(g,p,None,{k:dict(v) for k,v in tab.items()},None,{})
cn=CNSolution(g,0,["1","5"])
ms=sorted(estimate_major(g,cov,cn,"any"),key=lambda m:(int(1000*m.score),m._solution_nice()))
for s in estimate_minor(g,cov,ms,"any"):
    print(round(s.score,3),sorted((a.minor,tuple(sorted(g.get_refseq(x) for x in a.added)),tuple(sorted(g.get_refseq(x) for x in a.missing))) for a in s.solution))
'''
for seed in range(8):
    o=subprocess.run(["/venv/bin/python","-c",code],env=dict(os.environ,PYTHONHASHSEED=str(seed)),capture_output=True,text=True).stdout
    import hashlib; print(seed, hashlib.md5(o.encode()).hexdigest())
