import warnings; warnings.filterwarnings("ignore")
import logbook; logbook.NullHandler().push_application()
import collections
from aldy.gene import Gene, Mutation
from aldy.common import script_path
from aldy.profile import Profile
from aldy.minor import estimate_minor
from aldy.solutions import CNSolution, MajorSolution, SolvedAllele
from aldy.coverage import Coverage
g=Gene(script_path("aldy.tests.resources/toy.yml"))
p=Profile("t")
# same structure for both candidates (so the D3 filter issue is not involved); reads for the silent insA (minor of *3) and weak C>T
tab={100000104:{"_":20},100000110:{"_":20},100000114:{"_":20},100000118:{"_":20},100000147:{"_":20,"insA":10},100000150:{"_":14,"C>T":6}}
cov=Coverage(g,p,None,{k:{o:[(60,60)]*c for o,c in v.items()} for k,v in tab.items()},None,{})
cn=CNSolution(g,0,["1","1"])
A=MajorSolution(0,collections.Counter({SolvedAllele(g,"1"):2}),cn,[Mutation(100000150,"C>T")])
B=MajorSolution(0.5,collections.Counter({SolvedAllele(g,"1"):1,SolvedAllele(g,"3"):1}),cn,[])
def show(sols): return [(str(dict((k.major,v) for k,v in s.major_solution.solution.items())),[(a.minor,[str(x) for x in a.added],[str(x) for x in a.missing]) for a in s.solution],round(s.score,3)) for s in sols]
print("A alone",show(estimate_minor(g,cov,[A],"any")))
print("[A,B]  ",show(estimate_minor(g,cov,[A,B],"any")))
print("[B,A]  ",show(estimate_minor(g,cov,[B,A],"any")))
