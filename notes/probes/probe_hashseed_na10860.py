import os,sys,subprocess,hashlib
code='''
import warnings; warnings.filterwarnings("ignore")
import logbook; logbook.NullHandler().push_application()
import io
from aldy.genotype import genotype
from aldy.common import script_path
f=io.StringIO(); f.name="x.aldy"
r=genotype("cyp2d6",script_path("aldy.tests.resources/NA10860.bam"),"illumina",output_file=f)
print(f.getvalue())
for k,v in r.items():
    for s in v: print(s.get_major_diplotype(),s.get_minor_diplotype(),round(s.score,5))
'''
outs={}
ps=[]
for seed in range(4):
    env=dict(os.environ,PYTHONHASHSEED=str(seed))
    ps.append((seed,subprocess.Popen(["/venv/bin/python","-c",code],env=env,stdout=subprocess.PIPE,stderr=subprocess.DEVNULL)))
for seed,p in ps:
    o=p.communicate()[0]; outs[seed]=hashlib.md5(o).hexdigest(); print(seed,outs[seed],len(o))
