import warnings; warnings.filterwarnings("ignore")
import logbook; logbook.NullHandler().push_application()
import sys, time, collections, itertools, random
from aldy.gene import Gene, Mutation
from aldy.common import script_path
from aldy.profile import Profile
from aldy.minor import estimate_minor
from aldy.sam import Sample
from aldy.solutions import CNSolution, MajorSolution, SolvedAllele
from aldy.coverage import Coverage
from minor_ref2 import *
g=Gene(script_path("aldy.tests.resources/toy.yml"))
random.seed(int(sys.argv[1]) if len(sys.argv)>1 else 0)
sites={100000104:["T>A"],100000110:["delAC"],100000114:["T>A"],100000118:["insTT"],100000147:["insA"],100000150:["C>T"]}
n=bad=inf=0; t=time.time(); withphase=0
for it in range(120):
    p=Profile("t")
    cnlist,majors=random.choice([(["1","1"],{"1":2}),(["1","1"],{"1":1,"2":1}),(["1","1"],{"1C":1,"3":1}),(["1","4"],{"1":1,"4#3":1}),(["1","1"],{"1":1,"3":1}),(["1","1"],{"3":2})])
    cn=CNSolution(g,0,cnlist)
    table={}
    for pos,ops in sites.items():
        d={}; T=random.choice([10,20,30])
        for op in ops: d[op]=[(60,60)]*random.choice([0,0,3,5,8,10,15,20])
        k=sum(len(v) for op,v in d.items() if not op.startswith("ins"))
        d["_"]=[(60,60)]*max(0,T-k)
        table[pos]={op:l for op,l in d.items() if l}
    cov=Coverage(g,p,None,{k:dict(v) for k,v in table.items()},None,{})
    phases={}
    for i in range(random.choice([0,1,2,3])):
        ps=random.sample(sorted(sites),random.choice([2,3]))
        phases[f"r{i}"]={q:random.choice(["_",sites[q][0]]) for q in ps}
    cov.sam=Sample.__new__(Sample); cov.sam.phases=phases
    major=MajorSolution(0,collections.Counter({SolvedAllele(g,M):c for M,c in majors.items()}),cn,[])
    considered=set()
    for M in majors:
        considered|=set(g.alleles[M].func_muts)
        for mi in g.alleles[M].minors.values(): considered|=set(mi.neutral_muts)
    sols=estimate_minor(g,cov,[major],"any")
    f=filt(g,p,table,cn,considered)
    best,arg=ref_minor_joint(g,p,f,majors,cn,considered,phases)
    n+=1
    if phases: withphase+=1
    if best is None:
        inf+=1
        if sols: bad+=1; print("REF infeasible but impl",majors,table,phases)
        continue
    if not sols: bad+=1; print("IMPL none",best,majors,phases); continue
    if abs(sols[0].score-best)>5e-3:
        bad+=1
        if bad<6: print("SCORE",sols[0].score,best,majors,{k:{o:len(l) for o,l in v.items()} for k,v in table.items()},phases,[(a.minor,a.added,a.missing) for a in sols[0].solution])
print("n",n,"bad",bad,"infeasible",inf,"withphase",withphase,time.time()-t)
