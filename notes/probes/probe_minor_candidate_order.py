import warnings; warnings.filterwarnings("ignore")
import logbook; logbook.NullHandler().push_application()
import collections
from aldy.gene import Gene, Mutation
from aldy.common import script_path
from aldy.profile import Profile
from aldy.minor import estimate_minor
from aldy.solutions import CNSolution, MajorSolution, SolvedAllele
from aldy.coverage import Coverage
g=Gene(script_path("aldy.tests.resources/toy.yml"))
p=Profile("t")
tab={100000104:{"_":30},100000110:{"_":30},100000114:{"_":25,"T>A":5},100000118:{"_":30},100000147:{"_":30},100000150:{"_":30}}
cov=Coverage(g,p,None,{k:{o:[(60,60)]*c for o,c in v.items()} for k,v in tab.items()},None,{})
cn2=CNSolution(g,0,["1","1"]); cn3=CNSolution(g,0,["1","1","1"])
A=MajorSolution(0,collections.Counter({SolvedAllele(g,"1"):2}),cn2,[])
B=MajorSolution(0,collections.Counter({SolvedAllele(g,"1"):3}),cn3,[])
def show(sols): return [(s.major_solution.cn_solution._solution_nice(),[(a.minor,a.added,a.missing) for a in s.solution],round(s.score,3)) for s in sols]
print("A alone ",show(estimate_minor(g,cov,[A],"any")))
print("B alone ",show(estimate_minor(g,cov,[B],"any")))
print("[A,B]   ",show(estimate_minor(g,cov,[A,B],"any")))
print("[B,A]   ",show(estimate_minor(g,cov,[B,A],"any")))
