import warnings; warnings.filterwarnings("ignore")
import logbook; logbook.NullHandler().push_application()
import collections, io, copy
from aldy.gene import Gene, Mutation
from aldy.common import script_path
from aldy.profile import Profile
from aldy.solutions import CNSolution, MajorSolution, SolvedAllele, MinorSolution
from aldy.coverage import Coverage
from aldy.diplotype import write_vcf, write_decomposition, estimate_diplotype
g=Gene(script_path("aldy.tests.resources/toy.yml"))
before={a:sorted(al.func_muts) for a,al in g.alleles.items()}
sa=SolvedAllele(g,"1","1.002",[Mutation(100000150,"C>T")],[])
print(sa.mutations())
after={a:sorted(al.func_muts) for a,al in g.alleles.items()}
print("catalogue changed:",before!=after, after["1"])
g=Gene(script_path("aldy.tests.resources/toy.yml"))
p=Profile("t")
cn=CNSolution(g,0,["1","1"])
cv=Coverage(g,p,None,{},None,{})
ma=MajorSolution(0,collections.Counter({SolvedAllele(g,"1"):1,SolvedAllele(g,"3"):1}),cn,[])
m1=MinorSolution(0,[SolvedAllele(g,"1","1.001"),SolvedAllele(g,"3","3.001")],ma,p)
ma2=MajorSolution(0,collections.Counter({SolvedAllele(g,"1"):1,SolvedAllele(g,"1C"):1}),cn,[])
m2=MinorSolution(0,[SolvedAllele(g,"1","1.002"),SolvedAllele(g,"1C","1.003")],ma2,p)
estimate_diplotype(g,m1); estimate_diplotype(g,m2)
f=io.StringIO(); write_vcf("S",g,cv,[m1,m2],f); print(f.getvalue())
f=io.StringIO(); write_decomposition("S",g,cv,1,m1,f); write_decomposition("S",g,cv,2,m2,f); print(f.getvalue())
