import warnings; warnings.filterwarnings("ignore")
import logbook; logbook.NullHandler().push_application()
import glob, os, collections, sys
from aldy.gene import Gene
from aldy.common import script_path, rev_comp
d=os.path.dirname(script_path("aldy.resources.genes/cyp2d6.yml"))
W=60
def apply_refseq(seq,p,op):   # p: 0-based index of written position
    if ">" in op:
        l,r=op.split(">"); new="".join(seq[p+i] if b=="." else b for i,b in enumerate(r))
        return seq[:p]+new+seq[p+len(l):]
    if op.startswith("ins"): return seq[:p+1]+op[3:]+seq[p+1:]        # after written base
    dl=op[3:]
    if "ins" in dl:
        dl,ins=dl.split("ins"); return seq[:p]+ins+seq[p+len(dl):]
    return seq[:p]+seq[p+len(dl):]
def apply_genome(gseq,off,gpos,gop):  # gseq = genome-oriented string starting at genome coordinate off
    i=gpos-off
    if ">" in gop:
        l,r=gop.split(">"); new="".join(gseq[i+k] if b=="." else b for k,b in enumerate(r))
        return gseq[:i]+new+gseq[i+len(l):]
    if gop.startswith("ins"): return gseq[:i+1]+gop[3:]+gseq[i+1:]    # after anchor base
    dl=gop[3:]
    if "ins" in dl:
        dl,ins=dl.split("ins"); return gseq[:i]+ins+gseq[i+len(dl):]
    return gseq[:i]+gseq[i+len(dl):]
tot=collections.Counter(); bad=[]
files=sorted(glob.glob(d+"/*.yml"))+[script_path("aldy.tests.resources/toy.yml")]
for f in files:
    n=os.path.basename(f)[:-4]
    for b in ["hg19","hg38"]:
        g=Gene(f,genome=b)
        # only valid where mapping is gap-free around the variant: build genome-oriented string from lookup
        s,e=g._lookup_range
        for (gpos,gop),(fn,rs,rpos,opos,oop) in g.mutations.items():
            kind = "snp" if ">" in gop and len(gop)==3 else "mnp" if ">" in gop else "ins" if gop.startswith("ins") else "delins" if "ins" in gop else "del"
            tot[kind]+=1
            lo=max(s,gpos-W); hi=min(e,gpos+W)
            gseq=g[lo:hi]
            if "N" in gseq: tot["skipN"]+=1; continue
            # the refseq window corresponding to [lo,hi)
            idx=[g.chr_to_ref[x] for x in range(lo,hi)]
            if g.strand>0: rlo,rhi=idx[0],idx[-1]+1
            else: rlo,rhi=idx[-1],idx[0]+1
            if rhi-rlo!=hi-lo: tot["skipgap"]+=1; continue
            rseq=g.seq[rlo:rhi]
            try:
                h1=apply_genome(gseq,lo,gpos,gop)
                if g.strand<0: h1=rev_comp(h1)
                h2=apply_refseq(rseq,opos-rlo,oop)
            except Exception as ex:
                bad.append((n,b,kind,gpos,gop,opos,oop,"EXC",repr(ex))); continue
            if h1!=h2: bad.append((n,b,kind,gpos,gop,opos+1,oop,h1[W-8:W+12],h2[W-8:W+12]))
            # refseq notation
            if g.get_refseq(gpos,gop)!=f"{opos+1}{oop}": bad.append((n,b,"refseq-notation",gpos,gop,g.get_refseq(gpos,gop),f"{opos+1}{oop}"))
print(dict(tot)); print(len(bad))
for x in bad[:30]: print(x)
