import warnings; warnings.filterwarnings("ignore")
import logbook; logbook.NullHandler().push_application()
import inspect, collections, io, copy, hashlib
from aldy.gene import Gene, Mutation, MajorAllele, MinorAllele, CNConfig
from aldy.common import script_path
from aldy.profile import Profile
from aldy.solutions import CNSolution, MajorSolution, SolvedAllele, MinorSolution
from aldy.coverage import Coverage
from aldy.diplotype import estimate_diplotype, write_decomposition, write_vcf
from aldy.query import query
import enum
def canon(o, depth=0):
    if isinstance(o,enum.Enum): return repr(o)
    if isinstance(o,(str,int,float,bool,type(None))): return repr(o)
    if isinstance(o,(set,frozenset)): return "S{"+",".join(sorted(canon(x) for x in o))+"}"
    if isinstance(o,dict): return "D{"+",".join(f"{canon(k)}:{canon(v)}" for k,v in o.items())+"}"   # order-sensitive on purpose
    if isinstance(o,(list,tuple)): return "L["+",".join(canon(x) for x in o)+"]"
    if hasattr(o,"__dict__"): return type(o).__name__+canon({k:v for k,v in vars(o).items() if k not in ("gene","sam","profile")})
    return repr(o)
def gdigest(g): return hashlib.md5(canon({k:v for k,v in vars(g).items() if k!="_yml"}).encode()).hexdigest()
g=Gene(script_path("aldy.tests.resources/toy.yml"))
d0=gdigest(g)
p=Profile("t")
tab={100000104:{"_":20},100000110:{"_":10,"delAC":10},100000114:{"_":15,"T>A":5},100000118:{"_":20,"insTT":10},100000147:{"_":20,"insA":10},100000150:{"_":10,"C>T":10}}
cov=Coverage(g,p,None,{k:{o:[(60,60)]*c for o,c in v.items()} for k,v in tab.items()},None,{})
c0=hashlib.md5(canon(cov).encode()).hexdigest()
cn=CNSolution(g,0,["1","1"])
m=Mutation(100000150,"C>T")
sa=SolvedAllele(g,"3","3.001",[Mutation(100000114,"T>A")],[Mutation(100000147,"insA")])
maj=MajorSolution(0,collections.Counter({SolvedAllele(g,"2"):1,SolvedAllele(g,"3"):1}),cn,[])
mi=MinorSolution(0,[SolvedAllele(g,"2","2.001"),sa],maj,p); estimate_diplotype(g,mi)
objs={"gene":g,"major_allele":g.alleles["3"],"cnconfig":g.cn_configs["4"],"cnsol":cn,"solved":sa,"majsol":maj,"minsol":mi,"cov":cov}
argmenu=[(),(m,),(m.pos,),(m.pos,m.op),("3",),("3.001",),("3",m.pos),(0,"e1"),(cn,),(m,cn),(0,),(cov,),(mi,)]
changed=[]
for on,o in objs.items():
    for name,member in inspect.getmembers(type(o)):
        if name.startswith("_") and name not in("__str__","__hash__","__repr__","__getitem__","__contains__"): continue
        if name in ("update","load","get_sam_profile_data","set_diplotype","filtered","basic_filter","quality_filter"): pass
        if isinstance(member,property):
            try: getattr(o,name)
            except Exception: pass
        elif callable(member):
            for args in argmenu:
                try:
                    r=getattr(o,name)(*args)
                    if inspect.isgenerator(r): list(r)
                except Exception as e: continue
        d1=gdigest(g); c1=hashlib.md5(canon(cov).encode()).hexdigest()
        if d1!=d0 or c1!=c0:
            changed.append((on,name,d1!=d0,c1!=c0)); 
            g=Gene(script_path("aldy.tests.resources/toy.yml")); d0=gdigest(g)
            for k in list(objs): pass
            break
print("mutating accessors:",changed)
# writers + query
g=Gene(script_path("aldy.tests.resources/toy.yml")); d0=gdigest(g)
cn=CNSolution(g,0,["1","1"]); maj=MajorSolution(0,collections.Counter({SolvedAllele(g,"2"):1,SolvedAllele(g,"3"):1}),cn,[])
sa=SolvedAllele(g,"3","3.001",[Mutation(100000114,"T>A")],[Mutation(100000147,"insA")])
mi=MinorSolution(0,[SolvedAllele(g,"2","2.001"),sa],maj,p); estimate_diplotype(g,mi)
cov=Coverage(g,p,None,{k:{o:[(60,60)]*c for o,c in v.items()} for k,v in tab.items()},None,{})
f=io.StringIO(); write_decomposition("S",g,cov,1,mi,f); write_vcf("S",g,cov,[mi],f)
import contextlib
for q in ["","1","3","3.001","4","1C"]:
    try: query(g,q)
    except SystemExit: pass
mi.get_mutation_coverages(cov); str(mi); str(maj); str(cn); mi.get_major_diplotype(); mi.get_minor_diplotype(True)
print("after writers/query/str:", gdigest(g)==d0)
