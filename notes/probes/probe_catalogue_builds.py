import time, glob, os, sys, warnings
warnings.filterwarnings("ignore")
from aldy.gene import Gene
from aldy.common import script_path, rev_comp
import logbook
logbook.NullHandler().push_application()
d=os.path.dirname(script_path("aldy.resources.genes/cyp2d6.yml"))
tot=0
for f in sorted(glob.glob(d+"/*.yml")):
    n=os.path.basename(f)[:-4]
    gs={}
    for b in ["hg19","hg38"]:
        t=time.time()
        try:
            gs[b]=Gene(f,genome=b)
        except Exception as e:
            print(n,b,"ERR",repr(e)); continue
    if len(gs)<2: continue
    a,b=gs["hg19"],gs["hg38"]
    def cat(g):
        return {an:(al.cn_config, tuple(sorted(g.get_refseq(m) for m in al.func_muts)), {mn:tuple(sorted(g.get_refseq(m) for m in mi.neutral_muts)) for mn,mi in al.minors.items()}) for an,al in g.alleles.items()}
    ca,cb=cat(a),cat(b)
    same = ca==cb
    cfa={k:(v.kind.name,v.vector,tuple(sorted(v.alleles))) for k,v in a.cn_configs.items()}
    cfb={k:(v.kind.name,v.vector,tuple(sorted(v.alleles))) for k,v in b.cn_configs.items()}
    print(n, a.strand,b.strand, len(a.alleles), len(a.mutations), len(b.mutations), "cat_same",same, "cn_same",cfa==cfb, "pseudo",a.pseudogenes, list(a.cn_configs)[:6], "docn",a.do_copy_number)
    if not same:
        for k in set(ca)|set(cb):
            if ca.get(k)!=cb.get(k): print("   DIFF",k, str(ca.get(k))[:200], "|||", str(cb.get(k))[:200]); break
