import warnings; warnings.filterwarnings("ignore")
import logbook; logbook.NullHandler().push_application()
import sys, itertools, collections, yaml, time
from sim import *
from aldy.gene import Gene
w=World(strand="+")
s=w.seq
F1=[150,f"{s[149]}>{COMP[s[149]]}","rs1","functional"]; F2=[330,f"{s[329]}>{COMP[s[329]]}","rs2","functional"]
S1=[230,f"{s[229]}>{COMP[s[229]]}","rs3"]; S2=[520,f"{s[519]}>{COMP[s[519]]}","rs4"]
menu=[F1,F2,S1,S2]
sets=[list(c) for k in range(0,4) for c in itertools.combinations(range(4),k)]
names=["1.001","1.002","2.001","2.002","10.001","1B.001"]
labels=[None,"2","1B","10A"]
base=yaml.safe_load(w.yaml({}))
t=time.time(); n=0; bad=collections.Counter(); ex={}
def check(al):
    db=dict(base); db["alleles"]={f"GEN*{k}":v for k,v in al.items()}
    g=Gene(None,name="GEN",yml=yaml.safe_dump(db),genome="hg19")
    # 1 reachable + exactly one major
    for k,v in al.items():
        nm=k
        hits=[an for an,a in g.alleles.items() if g.removed.get(nm,nm) in a.minors]
        if len(hits)!=1: return "reach",(nm,hits)
        a,mi=g.get_allele(nm)
        want=set(tuple(x[:2]) for x in v["mutations"])
        got={ (g.mutations[m][3]+1, g.mutations[m][4]) for m in (set(a.func_muts)|set(mi.neutral_muts))}
        if want!=got: return "content",(nm,want,got)
    keys=collections.Counter((a.cn_config,tuple(sorted(a.func_muts))) for a in g.alleles.values())
    if any(c>1 for c in keys.values()): return "dup-major",keys
    for a in g.alleles.values():
        if not all(g.is_functional(m) for m in a.func_muts): return "core",a.name
        ms=collections.Counter(tuple(sorted(mi.neutral_muts)) for mi in a.minors.values())
        if any(c>1 for c in ms.values()): return "dup-minor",a.name
        for mi in a.minors.values():
            if any(g.is_functional(m) for m in mi.neutral_muts): return "silent",a.name
        if a.cn_config not in g.cn_configs: return "cfg",a.name
    return None
for k in [2,3]:
    if k==3: sets=[[],[0],[0,2],[1],[2],[0,1]]
    for nm in itertools.combinations(names,k):
        for vs in itertools.product(sets,repeat=k):
            for lb in itertools.product(labels,repeat=k) if k==2 else [tuple([None]*k),("2",None,None),(None,"1B",None),("10A","10A",None)]:
                al={}
                for a,v,l in zip(nm,vs,lb):
                    al[a]={"mutations":[menu[i] for i in v]}
                    if l: al[a]["label"]=f"GEN*{l}"
                n+=1
                try:
                    r=check(al)
                except Exception as e:
                    r=("exc",repr(e)[:100])
                if r:
                    bad[r[0]]+=1; ex.setdefault(r[0],(al,r))
print("n",n,dict(bad),time.time()-t)
for k,v in ex.items(): print(k,v)
