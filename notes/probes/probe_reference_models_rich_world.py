import warnings; warnings.filterwarnings("ignore")
import logbook; logbook.NullHandler().push_application()
import sys, time, collections, itertools, random, yaml
from sim import *
from aldy.gene import Gene, Mutation
from aldy.profile import Profile
from aldy.major import estimate_major
from aldy.minor import estimate_minor
from aldy.solutions import CNSolution, MajorSolution, SolvedAllele
from aldy.coverage import Coverage
src=open("t12.py").read()
exec(src.split("random.seed")[0].split("g=Gene(")[0]); 
exec("def ref_major"+src.split("def ref_major")[1].split("random.seed")[0])
from minor_ref2 import ref_minor_joint
from minor_ref import filt
strand=sys.argv[1]
w=World(strand=strand); s=w.seq
def snp(p1,alt=None):
    r=s[p1-1]; a=alt or COMP[r]; return [p1,f"{r}>{a}"]
alt2={"A":"G","C":"T","G":"A","T":"C"}
alleles={
 "GEN*1.001":{"mutations":[]},
 "GEN*1.002":{"mutations":[snp(230)+["rs230"]]},
 "GEN*2.001":{"mutations":[snp(150)+["rs150","functional"]]},
 "GEN*3.001":{"mutations":[snp(150,alt2[s[149]])+["rs150b","functional"]]},     # same site, other alt
 "GEN*4.001":{"mutations":[[150,"insGAT","rs150i","frameshift"]]},               # insertion anchored at same site
 "GEN*5.001":{"mutations":[[310,f"{s[309:311]}>{COMP[s[309]]+COMP[s[310]]}","rs310","functional"]]},
 "GEN*6.001":{"mutations":[[330,f"del{s[329:332]}","rs330","frameshift"],snp(230)+["rs230"]]},
 "GEN*7.001":{"mutations":[snp(231)+["rs231"], snp(150)+["rs150","functional"]]},
 "GEN*9.001":{"mutations":[["GEN","deletion"]]},
 "GEN*10.001":{"mutations":[["GENP","e2-"]]},
}
open("w/g35.yml","w").write(w.yaml(alleles)); g=Gene("w/g35.yml",genome="hg19")
print({a:(al.cn_config,sorted(al.func_muts),list(al.minors)) for a,al in g.alleles.items()})
random.seed(int(sys.argv[2]) if len(sys.argv)>2 else 0)
muts=[Mutation(*m) for m in g.mutations]
bypos=collections.defaultdict(list)
for m in muts: bypos[m.pos].append(m)
n=bad=nm=badm=0; t=time.time()
for it in range(300):
    p=Profile("t"); p.gap=random.choice([0,0.1,0.5])
    cnlist=random.choice([["1","1"],["1","1","1"],["1","10"],["1","9"],["10","10"]])
    table={}
    for pos,ms in bypos.items():
        d={}; T=random.choice([10,20,30])
        for m in ms: d[m.op]=[(60,60)]*random.choice([0,0,0,5,10,15,20])
        k=sum(len(v) for op,v in d.items() if not op.startswith("ins"))
        d["_"]=[(60,60)]*max(0,T-k)
        table[pos]={op:l for op,l in d.items() if l}
    cov=Coverage(g,p,None,{k:dict(v) for k,v in table.items()},None,{})
    cn=CNSolution(g,0,cnlist)
    try: sols=estimate_major(g,cov,cn,"any")
    except Exception as e: print("EXC major",repr(e)); bad+=1; continue
    got=sorted((round(x.score,4),tuple(sorted(a.major for a,c in x.solution.items() for _ in range(c))),tuple(sorted(x.added))) for x in sols)
    ref=sorted((round(o,4),S,N) for o,S,N in ref_major(g,p,table,cnlist,p.gap))
    n+=1
    same=len(got)==len(ref) and all(abs(a[0]-b[0])<1e-3 and a[1:]==b[1:] for a,b in zip(sorted(got,key=lambda x:x[1:]),sorted(ref,key=lambda x:x[1:])))
    if not same:
        bad+=1
        if bad<4: print("DIFF major",cnlist,p.gap,{k:{o:len(l) for o,l in v.items()} for k,v in table.items()},"\n got",got,"\n ref",ref)
    # minor on first major solution
    if sols and len(cnlist)<=2:
        ms_=sols[0]
        majors=collections.Counter(a.major for a,c in ms_.solution.items() for _ in range(c))
        considered=set(ms_.added)
        for M in majors:
            considered|=set(g.alleles[M].func_muts)
            for mi in g.alleles[M].minors.values(): considered|=set(mi.neutral_muts)
        try: mins=estimate_minor(g,cov,[ms_],"any")
        except Exception as e: print("EXC minor",repr(e)[:200], dict(majors)); badm+=1; continue
        f=filt(g,p,table,cn,considered)
        best,arg=ref_minor_joint(g,p,f,dict(majors),cn,considered)
        nm+=1
        if (best is None)!=(not mins) or (mins and abs((mins[0].score-ms_.score+min(x.score for x in [ms_]))-best)>5e-3):
            badm+=1
            if badm<4: print("DIFF minor",dict(majors),ms_.added,best,[ (x.score,[(a.minor,a.added,a.missing) for a in x.solution]) for x in mins])
print("strand",strand,"major n",n,"bad",bad,"| minor n",nm,"bad",badm,time.time()-t)
