import warnings; warnings.filterwarnings("ignore")
import logbook; logbook.NullHandler().push_application()
import sys
exec(open("t4.py").read().split("# reference sample")[0])
from aldy.sam import Sample, detect_genome
from aldy.profile import Profile
g=Gene("gen.yml",genome="hg19")
def write_sam(path, reads):
    with open(path,"w") as f:
        f.write("@HD\tVN:1.0\tSO:unsorted\n@SQ\tSN:7\tLN:9000\n")
        for n,flag,pos,mq,cig,seq,qual in reads:
            f.write(f"{n}\t{flag}\t7\t{pos+1}\t{mq}\t{cig}\t*\t0\t0\t{seq}\t{qual}\n")
reads=[("r2",0,3200,60,"10M",G[3200:3210],"I"*10),("r1",0,3100,60,"4M2D6M",G[3100:3104]+G[3106:3112],"I"*10),("r3",2048,3100,60,"10M",G[3100:3110],"I"*10),("r4",0,3105,60,"5H10M",G[3105:3115],"I"*10),("r5",4,3105,0,"*",G[3105:3115],"I"*10),("r6",1024,3105,5,"3S7M",G[3100:3103]+G[3105:3112],"*")]
write_sam("x.sam",reads)
print(detect_genome("x.sam"))
p=Profile("user",cn_solution=["1","1"])
s=Sample(g,p,"x.sam")
cov=s.coverage
for pos in sorted(cov._coverage):
    print(pos,{k:len(v) for k,v in cov._coverage[pos].items()}, end="; ")
print()
print(s.phases)
