# probe-only simulator (not framework code)
import warnings; warnings.filterwarnings("ignore")
import random, yaml, pysam, os, collections
from aldy.common import rev_comp
COMP={"A":"C","C":"G","G":"T","T":"A"}
class World:
    def __init__(self, strand="+", pseudo=True, seed=7, off=3001, poff=6001, noff=9001, L=600):
        rnd=random.Random(seed)
        self.L=L; self.strand=strand; self.pseudo=pseudo; self.off=off; self.poff=poff; self.noff=noff
        seq=[rnd.choice("ACGT") for _ in range(L)]
        # planted repeats (refseq coords, 0-based)
        for i in range(250,258): seq[i]="A"       # homopolymer A x8 inside i1? (e1:100-200,e2:300-400)
        for i,c in zip(range(350,358),"CACACACA"): seq[i]=c
        self.seq="".join(seq)
        pse=list(self.seq)
        for i in range(5,L,23): pse[i]=COMP[pse[i]]
        self.pseq="".join(pse)
        self.neutral="".join(rnd.choice("ACGT") for _ in range(400))
        self.flankL="".join(rnd.choice("ACGT") for _ in range(400))
        self.flankR="".join(rnd.choice("ACGT") for _ in range(400))
        self.chrlen=12000
        # regions in refseq coords (0-based half-open): up 0-100, e1 100-200, i1 200-300, e2 300-400, i2 400-500, e3 500-550, down 550-600
        self.rs_regions=collections.OrderedDict([("up",(0,100)),("e1",(100,200)),("e2",(300,400)),("e3",(500,550)),("down",(550,600))])
    def g2(self, r0, base):  # refseq 0-based -> genome 0-based (gene copy at base)
        return base-1+r0 if self.strand=="+" else base-1+(self.L-1-r0)
    def regions_yaml(self):
        d={}
        for n,(s,e) in self.rs_regions.items():
            row=[]
            for base in [self.off]+([self.poff] if self.pseudo else []):
                if self.strand=="+": row+= [base+s, base+e]
                else: row+= [base+(self.L-e), base+(self.L-s)]
            d[n]=row
        return d
    def yaml(self, alleles):
        db={"name":"GEN","version":"t","alleles":alleles,
            "structure":{"genes":["GEN"]+(["GENP"] if self.pseudo else []),"regions":{"hg19":self.regions_yaml()},"cn_regions":["e1","i1","e2","i2","e3"]},
            "reference":{"name":"NG_X","mappings":{"hg19":["7",self.off,self.off+self.L,self.strand,f"M{self.L}"]},
                         "exons":[[101,201],[301,401],[501,551]],"seq":self.seq}}
        return yaml.safe_dump(db)
    def genome(self):
        G=["N"]*self.chrlen
        def put(base,s):
            for i,c in enumerate(s): G[base-1+i]=c
        gs=self.seq if self.strand=="+" else rev_comp(self.seq)
        ps=self.pseq if self.strand=="+" else rev_comp(self.pseq)
        put(self.off-400,self.flankL); put(self.off,gs); put(self.off+self.L,self.flankR)
        if self.pseudo:
            put(self.poff-400,self.flankL[::-1]); put(self.poff,ps); put(self.poff+self.L,self.flankR[::-1])
        put(self.noff,self.neutral)
        rnd=random.Random(99)
        for i in range(self.noff-1-300,self.noff-1): G[i]=rnd.choice("ACGT")
        for i in range(self.noff-1+400,self.noff-1+700): G[i]=rnd.choice("ACGT")
        return "".join(G)

def apply_vars_refseq(seq, variants):
    """variants: list of (pos1, op) in DB (refseq, 1-based) notation. returns list of segments (refpos0 or None, base) in refseq orientation."""
    cols=[[ (i,c) ] for i,c in enumerate(seq)]   # each refseq column -> list of (refidx or None, base)
    for pos1,op in sorted(variants):
        p=pos1-1
        if ">" in op:
            l,r=op.split(">")
            for k,(a,b) in enumerate(zip(l,r)):
                if a!=".": 
                    assert seq[p+k]==a,(pos1,op,seq[p+k])
                    cols[p+k]=[(p+k,b)]
        elif op.startswith("ins"):
            cols[p]=cols[p]+[(None,c) for c in op[3:]]   # inserted AFTER 1-based pos1 (anchor convention)
        elif op.startswith("del"):
            d=op[3:]; assert seq[p:p+len(d)]==d
            for k in range(len(d)): cols[p+k]=[("D",p+k)]
    return cols

def hap_to_genome_alignment(world, cols, base):
    """turn refseq-oriented columns into genome-oriented list of events: ('M',gpos,base) / ('I',None,base) / ('D',gpos,None)"""
    ev=[]
    it = cols if world.strand=="+" else cols[::-1]
    for col in it:
        c = col if world.strand=="+" else col[::-1]
        for (ri,b) in c:
            if ri=="D": ev.append(("D", world.g2(b,base), None))
            elif ri is None: ev.append(("I", None, b if world.strand=="+" else rev_comp(b)))
            else: ev.append(("M", world.g2(ri,base), b if world.strand=="+" else rev_comp(b)))
    return ev

def left_align_ok(ev): return ev

def tile_reads(events, rl, depth, name, flankL=None, flankR=None):
    """events: genome-ordered list over haplotype. produce reads of rl query bases tiled uniformly; CIGAR from events."""
    # query positions: events with op M or I consume query
    q_idx=[i for i,e in enumerate(events) if e[0] in "MI"]
    n=len(q_idx); step=rl/depth; x=0.0; k=0; out=[]
    while int(x)+rl<=n:
        a=q_idx[int(x)]; b=q_idx[int(x)+rl-1]
        seg=events[a:b+1]
        # trim leading/trailing non-M (reads must start/end with M)
        while seg and seg[0][0]!="M": seg=seg[1:]
        while seg and seg[-1][0]!="M": seg=seg[:-1]
        if seg:
            cig=[]; seqs=[]
            for op,gp,bs in seg:
                if cig and cig[-1][0]==op: cig[-1][1]+=1
                else: cig.append([op,1])
                if op!="D": seqs.append(bs)
            out.append((f"{name}_{k}", seg[0][1], "".join(seqs), "".join(f"{c}{o}" for o,c in cig)))
        x+=step; k+=1
    return out

def plain_events(G, start0, end0):
    return [("M",i,G[i]) for i in range(start0,end0)]

def write_bam(path, reads, chrlen, chrom="7"):
    hdr={"HD":{"VN":"1.0","SO":"coordinate"},"SQ":[{"SN":chrom,"LN":chrlen}]}
    reads=sorted(reads,key=lambda r:r[1])
    with pysam.AlignmentFile(path,"wb",header=hdr) as f:
        for n,pos,s,cg in reads:
            a=pysam.AlignedSegment(); a.query_name=n; a.query_sequence=s; a.flag=0; a.reference_id=0; a.reference_start=pos
            a.mapping_quality=60; a.cigarstring=cg; a.query_qualities=pysam.qualitystring_to_array("I"*len(s)); f.write(a)
    pysam.index(path)
