import warnings; warnings.filterwarnings("ignore")
import logbook; logbook.NullHandler().push_application()
import sys, time, collections, itertools, random
from aldy.gene import Gene, Mutation
from aldy.common import script_path
from aldy.profile import Profile
from aldy.major import estimate_major
from aldy.solutions import CNSolution
from aldy.coverage import Coverage
g=Gene(script_path("aldy.tests.resources/toy.yml"))
def ref_major(g,p,table,cnlist,gap):
    # table: {pos:{op:[(mq,q)...]}}
    cn=CNSolution(g,0,cnlist)
    q={pos:{op:[x for x in l if x[1]>=p.min_quality and x[0]>=p.min_mapq] for op,l in d.items()} for pos,d in table.items()}
    q={pos:{op:l for op,l in d.items() if l} for pos,d in q.items()}
    def total(t,pos): return sum(len(l) for op,l in t.get(pos,{}).items() if not op.startswith("ins"))
    def c(t,pos,op): return len(t.get(pos,{}).get(op,[]))
    def passes(pos,op):
        n=c(q,pos,op); T=total(q,pos)
        ok = n>=max(p.min_coverage, T*p.threshold/p.cn_max)
        if op!="_": ok = ok and n>=max(p.min_coverage, T*p.threshold/(cn.position_cn(pos)+0.5))
        return ok
    f={pos:{op:l for op,l in d.items() if passes(pos,op)} for pos,d in q.items()}
    core=[Mutation(*m) for m in g.mutations if g.is_functional(m)]
    obs=[m for m in core if c(f,m.pos,m.op)>0]
    cands=[a for a,al in g.alleles.items() if al.cn_config in cn.solution and all(c(f,m.pos,m.op)>0 for m in al.func_muts)]
    if set(cn.solution)-{g.alleles[a].cn_config for a in cands}: return []
    groups=[]
    for cfg,cnt in cn.solution.items():
        groups.append(list(itertools.combinations_with_replacement(sorted(a for a in cands if g.alleles[a].cn_config==cfg),cnt)))
    def single(pos):
        pc=cn.position_cn(pos)
        return 0 if pc==0 else max(1,total(f,pos))/pc
    res=[]
    for combo in itertools.product(*groups):
        S=[a for grp in combo for a in grp]
        novel=[m for m in obs if not any(m in g.alleles[a].func_muts for a in S)]
        # one novel per site (non-ins)
        cnt=collections.Counter(m.pos for m in novel if not m.op.startswith("ins"))
        if any(v>1 for v in cnt.values()): continue
        err=0
        for m in obs:
            s=single(m.pos); cv=c(f,m.pos,m.op)/s if s else 0
            err+=abs(cv-(sum(1 for a in S if m in g.alleles[a].func_muts)+(m in novel)))
        for pos in {m.pos for m in obs}:
            s=single(pos); cv=c(f,pos,"_")/s if s else 0
            e=sum(1 for a in S if g.has_coverage(a,pos) and not any(mm.pos==pos and not mm.op.startswith("ins") for mm in g.alleles[a].func_muts))
            err+=abs(cv-e)
        obj=err+(p.major_novel if novel else 0)+0.1*len(novel)
        res.append((obj,tuple(sorted(S)),tuple(sorted(novel))))
    if not res: return []
    best=min(r[0] for r in res)
    return sorted(r for r in res if r[0]<=(1+gap)*best+1e-6)
random.seed(int(sys.argv[1]) if len(sys.argv)>1 else 0)
sites={100000104:["T>A"],100000110:["delAC"],100000114:["T>A"],100000118:["insTT"],100000147:["insA"],100000150:["C>T"]}
n=0;bad=0;t=time.time(); nontriv=0
for it in range(400):
    p=Profile("t"); p.gap=random.choice([0,0.1,0.5])
    cnlist=random.choice([["1","1"],["1","1","1"],["1","4"],["1","5"],["1","6"],["4","4","1"],["1"]*4])
    table={}
    for pos,ops in sites.items():
        d={}
        T=random.choice([10,20,30])
        for op in ops:
            k=random.choice([0,0,1,3,5,8,10,15,20])
            d[op]=[(60,60)]*k+[(60,5)]*random.choice([0,2])
        k=sum(len(v) for op,v in d.items() if not op.startswith("ins"))
        d["_"]=[(60,60)]*max(0,T-k)
        table[pos]={op:l for op,l in d.items() if l}
    cov=Coverage(g,p,None,{k:dict(v) for k,v in table.items()},None,{})
    cn=CNSolution(g,0,cnlist)
    sols=estimate_major(g,cov,cn,"any")
    got=sorted((round(s.score,4),tuple(sorted(a.major for a,c in s.solution.items() for _ in range(c))),tuple(sorted(s.added))) for s in sols)
    ref=ref_major(g,p,table,cnlist,p.gap)
    refr=sorted((round(o,4),S,N) for o,S,N in ref)
    n+=1
    if len(refr)>1 or (refr and refr[0][0]>0): nontriv+=1
    same = len(got)==len(refr) and all(abs(a[0]-b[0])<1e-3 and a[1:]==b[1:] for a,b in zip(sorted(got,key=lambda x:x[1:]),sorted(refr,key=lambda x:x[1:])))
    if not same:
        bad+=1
        if bad<6: print("DIFF gap",p.gap,cnlist,{k:{o:len(l) for o,l in v.items()} for k,v in table.items()},"\n  got",got,"\n  ref",refr)
print("n",n,"bad",bad,"nontriv",nontriv,time.time()-t)
