import warnings; warnings.filterwarnings("ignore")
import logbook; logbook.NullHandler().push_application()
import sys, time, itertools, collections
from sim import *
from aldy.gene import Gene
from aldy.genotype import genotype
from aldy.common import GRange, AldyException
strand=sys.argv[1]; rl=int(sys.argv[2]) if len(sys.argv)>2 else 100
w=World(strand=strand)
s=w.seq
def snp(p1,alt=None):
    r=s[p1-1]; a=alt or COMP[r]; return [p1,f"{r}>{a}"]
alleles={
 "GEN*1.001":{"mutations":[]},
 "GEN*1.002":{"mutations":[snp(230)+["rs230"]]},
 "GEN*2.001":{"mutations":[snp(150)+["rs150","functional"]]},
 "GEN*2.002":{"mutations":[snp(150)+["rs150","functional"],snp(230)+["rs230"]]},
 "GEN*3.001":{"mutations":[[330,f"del{s[329:332]}","rs330","frameshift"]]},
 "GEN*4.001":{"mutations":[[320,"insGATTACA","rs320","frameshift"]]},
 "GEN*5.001":{"mutations":[[310,f"{s[309:311]}>{COMP[s[309]]+COMP[s[310]]}","rs310","functional"]]},
 "GEN*6.001":{"mutations":[[253,"delAA","rs253","functional"]]},       # deletion inside A-homopolymer
 "GEN*7.001":{"mutations":[[354,"insCA","rs354","functional"]]},       # insertion inside CA repeat
 "GEN*8.001":{"mutations":[snp(520)+["rs520","functional"], snp(150)+["rs150","functional"]]},
 "GEN*9.001":{"mutations":[["GEN","deletion"]]},
 "GEN*10.001":{"mutations":[["GENP","e2-"]]},
 "GEN*11.001":{"mutations":[["GENP","e3+"]]},
}
open("w/gen.yml","w").write(w.yaml(alleles))
g=Gene("w/gen.yml",genome="hg19")
print("strand",g.strand,"alleles",list(g.alleles),"cn",{k:v.vector for k,v in g.cn_configs.items()})
G=w.genome()
def dbvars(name): return [(m[0],m[1]) for m in alleles[name]["mutations"] if not isinstance(m[0],str)]
def copy_reads(name, tag, depth=20, rl=rl, base=None):
    base=base or w.off
    cols=apply_vars_refseq(w.seq, dbvars(name))
    ev=hap_to_genome_alignment(w, cols, base)
    pre=plain_events(G, base-1-300, base-1); post=plain_events(G, base-1+w.L, base-1+w.L+300)
    return tile_reads(pre+ev+post, rl, depth, tag)
def pseudo_reads(tag,depth=20):
    return tile_reads(plain_events(G,w.poff-1-300,w.poff-1+w.L+300), rl, depth, tag)
def neutral_reads(tag,depth=20):
    return tile_reads(plain_events(G,w.noff-1-300,w.noff-1+700), rl, depth, tag)
prof=[]
for c in range(2): prof+=copy_reads("GEN*1.001",f"g{c}")+pseudo_reads(f"p{c}")+neutral_reads(f"n{c}")
write_bam("w/prof.bam",prof,w.chrlen)
NR=GRange("7",w.noff-1,w.noff-1+400)
names=[n for n in alleles if not any(isinstance(m[0],str) for m in alleles[n]["mutations"])]
t=time.time(); bad=0;n=0
for a,b in itertools.combinations_with_replacement(names,2):
    reads=copy_reads(a,"h0")+copy_reads(b,"h1")
    for c in range(2): reads+=pseudo_reads(f"p{c}")+neutral_reads(f"n{c}")
    write_bam("w/s.bam",reads,w.chrlen)
    try:
        res=genotype("w/gen.yml","w/s.bam","w/prof.bam",output_file=None,cn_region=NR,genome="hg19")
        sols=list(res.values())[0]
        got=[sorted(x.minor for x in so.solution) for so in sols]
        want=sorted([a.split("*")[1],b.split("*")[1]])
        extra=[(x.minor,x.added,x.missing) for so in sols for x in so.solution if x.added or x.missing]
        ok = want in got and not extra
    except Exception as e:
        ok=False; got=repr(e)[:150]; extra=None
    n+=1
    if not ok:
        bad+=1; print("MISS",a,b,"got",got,extra)
print("strand",strand,"rl",rl,"n",n,"bad",bad,time.time()-t)
