import warnings; warnings.filterwarnings("ignore")
import time, random, os, sys, yaml, pysam, io
import logbook; logbook.NullHandler().push_application()
from aldy.gene import Gene
from aldy.common import rev_comp, GRange
from aldy.profile import Profile
from aldy.sam import Sample
from aldy.genotype import genotype

random.seed(1)
L=600
seq="".join(random.choice("ACGT") for _ in range(L))
# gene on + strand at chr "7": genome pos 1001..1600 ; pseudogene 3001..3600; neutral 5001..5400
def mkdb(strand):
    regs={"up":[3001,3101,5001,5101],"e1":[3101,3201,5101,5201],"e2":[3301,3401,5301,5401],"down":[1501,1601,3501,3601]}
    # introns auto: i1 = e1.end..e2.start; but need e2->down contiguous: e2 end 1401, down start 1501 => gap! add e3
    regs={"up":[3001,3101,5001,5101],"e1":[3101,3201,5101,5201],"e2":[3301,3401,5301,5401],"e3":[3501,3551,5501,5551],"down":[3551,3601,5551,5601]}
    if strand=="-":
        pass
    db={"name":"GEN","version":"t","alleles":{
        "GEN*1.001":{"mutations":[]},
        "GEN*2.001":{"mutations":[[150, f"{seq[149]}>{'A' if seq[149]!='A' else 'C'}", "rs1","functional"]]},
        "GEN*2.002":{"mutations":[[150, f"{seq[149]}>{'A' if seq[149]!='A' else 'C'}", "rs1","functional"],[330, f"{seq[329]}>{'A' if seq[329]!='A' else 'C'}","rs2"]]},
        "GEN*3.001":{"mutations":[[350, f"del{seq[349:352]}", "rs3","frameshift"]]},
        "GEN*4.001":{"mutations":[[420, f"ins{'GATTACA'}", "rs4","frameshift"]]},
        "GEN*5.001":{"mutations":[["GEN","deletion"]]},
        "GEN*6.001":{"mutations":[["GENP","e2-"]]},
        },
        "structure":{"genes":["GEN","GENP"],"regions":{"hg19":regs},"cn_regions":["e1","i1","e2","i2","e3"]},
        "reference":{"name":"NG_X","mappings":{"hg19":["7",3001,3601,"+","M600"]},"exons":[[101,201],[301,401],[501,551]],"seq":seq}}
    return db
db=mkdb("+")
open("gen.yml","w").write(yaml.safe_dump(db))
g=Gene("gen.yml",genome="hg19")
print(g.alleles.keys(), g.cn_configs.keys())
for k,v in g.alleles.items(): print(k,v.cn_config,sorted(v.func_muts),{m:sorted(x.neutral_muts) for m,x in v.minors.items()})
# genome
G=["N"]*9000
for i,c in enumerate(seq): G[3000+i]=c
pseq=list(seq)
for i in range(0,L,17): pseq[i]={"A":"C","C":"G","G":"T","T":"A"}[pseq[i]]
for i,c in enumerate(pseq): G[5000+i]=c
for i in range(7000,7400): G[i]=random.choice("ACGT")
G="".join(G)
def hap(muts):
    # returns list of (genome_pos or None, base) for gene region 900..1700 with padding
    out=[]
    s=list(G[900:1700]); 
    return s
def reads_from(seqstr, offset, cigar_fn, depth, rl=100, name="r"):
    # uniform tiling: start every rl/depth
    out=[]
    step=rl/depth
    x=0.0; k=0
    while int(x)+rl<=len(seqstr):
        st=int(x)
        out.append((f"{name}{k}", offset+st, seqstr[st:st+rl]))
        x+=step; k+=1
    return out
def write_bam(path, reads):
    hdr={"HD":{"VN":"1.0","SO":"coordinate"},"SQ":[{"SN":"7","LN":9000}]}
    reads=sorted(reads,key=lambda r:r[1])
    with pysam.AlignmentFile(path,"wb",header=hdr) as f:
        for n,pos,s,*rest in reads:
            a=pysam.AlignedSegment()
            a.query_name=n; a.query_sequence=s; a.flag=0; a.reference_id=0; a.reference_start=pos
            a.mapping_quality=60; a.cigarstring=rest[0] if rest else f"{len(s)}M"; a.query_qualities=pysam.qualitystring_to_array("I"*len(s))
            f.write(a)
    pysam.index(path)
# reference sample: 2 copies gene (ref), 2 copies pseudo, neutral
ref_reads=[]
for c in range(2):
    ref_reads+=reads_from(G[2800:3800],2800,None,20,name=f"g{c}_")
    ref_reads+=reads_from(G[4800:5800],4800,None,20,name=f"p{c}_")
    ref_reads+=reads_from(G[6900:7500],6900,None,20,name=f"n{c}_")
write_bam("prof.bam",ref_reads)
# sample: *1/*2.002
h=list(G)
h[3000+149]= 'A' if seq[149]!='A' else 'C'
h[3000+329]= 'A' if seq[329]!='A' else 'C'
h="".join(h)
s_reads=[]
s_reads+=reads_from(G[2800:3800],2800,None,20,name="g0_")
s_reads+=reads_from(h[2800:3800],2800,None,20,name="g1_")
for c in range(2):
    s_reads+=reads_from(G[4800:5800],4800,None,20,name=f"p{c}_")
    s_reads+=reads_from(G[6900:7500],6900,None,20,name=f"n{c}_")
write_bam("s1.bam",s_reads)
t=time.time()
res=genotype("gen.yml","s1.bam","prof.bam",output_file=None,cn_region=GRange("7",7000,7400),genome="hg19")
print("genotype time",time.time()-t)
for k,v in res.items():
    for s in v: print(s.get_major_diplotype(), s.get_minor_diplotype(), s.score, s.major_solution.cn_solution.solution)
t=time.time()
res=genotype("gen.yml","prof.bam","prof.bam",output_file=None,cn_region=GRange("7",7000,7400),genome="hg19")
print("genotype time",time.time()-t)
for k,v in res.items():
    for s in v: print(s.get_major_diplotype(), s.get_minor_diplotype(), s.score, s.major_solution.cn_solution.solution)
