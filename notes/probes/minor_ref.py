# probe: reference semantics of the minor model (no phasing)
import itertools, collections
from aldy.gene import Mutation
def filt(g, p, table, cn, considered):
    q={pos:{op:[x for x in l if x[1]>=p.min_quality and x[0]>=p.min_mapq] for op,l in d.items()} for pos,d in table.items()}
    q={pos:{op:l for op,l in d.items() if l} for pos,d in q.items()}
    def total(pos): return sum(len(l) for op,l in q.get(pos,{}).items() if not op.startswith("ins"))
    f={}
    for pos,d in q.items():
        f[pos]={}
        for op,l in d.items():
            m=Mutation(pos,op); r=g.region_at(pos)
            if op!="_" and not (m in considered or (r and r[1][0]=="e") or (r and r[1] in ["utr3","utr5","up"])): continue
            n=len(l); T=total(pos)
            ok=n>=max(p.min_coverage,T*p.threshold/p.cn_max)
            if op!="_": ok=ok and n>=max(p.min_coverage,T*p.threshold/(cn.position_cn(pos)+0.5))
            if ok: f[pos][op]=l
    return f
def ref_minor(g, p, f, major_counts, cn, considered, pooled_alleles=None):
    """f: filtered table. major_counts: {major: cnt}. returns (best_obj, list of optimal assignments) where assignment = tuple of (major, minor, frozenset(carried))"""
    def c(pos,op): return len(f.get(pos,{}).get(op,[]))
    def total(pos): return sum(len(l) for op,l in f.get(pos,{}).items() if not op.startswith("ins"))
    def scov(pos):
        pc=cn.position_cn(pos); return 0 if pc==0 else max(1,total(pos))/pc
    considered=set(considered)
    positions=sorted({m.pos for m in considered})
    bypos=collections.defaultdict(list)
    for m in sorted(considered): bypos[m.pos].append(m)
    pooled = pooled_alleles or [(M,mi) for M in major_counts for mi in g.alleles[M].minors]
    def defn(M,mi): return set(g.alleles[M].func_muts)|set(g.alleles[M].minors[mi].neutral_muts)
    # max_mut per pos over ALL pooled alleles
    def ncand(M,mi,pos):
        d=defn(M,mi)
        return sum(1 for m in bypos[pos] if (m in d) or g.has_coverage(M,pos))
    maxmut={pos:max([ncand(M,mi,pos) for M,mi in pooled]+[0]) for pos in positions}
    groups=[]
    for M,cnt in sorted(major_counts.items()):
        groups.append([tuple((M,mi) for mi in combo) for combo in itertools.combinations_with_replacement(sorted(g.alleles[M].minors),cnt)])
    best=None; bestA=[]
    for combo in itertools.product(*groups):
        copies=[x for grp in combo for x in grp]
        tot=0; per_pos_opts=[]; feasible=True
        for pos in positions:
            s=scov(pos); pc=cn.position_cn(pos)
            cand=[]
            for (M,mi) in copies:
                d=defn(M,mi); opts=[None]
                for m in bypos[pos]:
                    if m in d:
                        if g.has_coverage(M,pos): opts.append(m)
                    elif g.has_coverage(M,pos): opts.append(m)
                cand.append((d,opts,M))
            bestp=None; bestsel=[]
            for sel in itertools.product(*[o for _,o,_ in cand]):
                ok=True; cost=0
                # core kept
                for (d,opts,M),ch in zip(cand,sel):
                    for m in d:
                        if m.pos==pos and g.is_functional(m) and ch!=m: ok=False
                if not ok: continue
                carr=collections.Counter(ch for ch in sel if ch is not None)
                for m in bypos[pos]:
                    k=carr.get(m,0)
                    if pc==0 or c(pos,m.op)==0:
                        if k>0: ok=False
                    else:
                        if k>c(pos,m.op) or k<1: ok=False
                    cv=c(pos,m.op)/s if s>0 else 0
                    cost+=abs(cv-k)
                if not ok: continue
                # ref expr & rule 6
                refe=0; r6=0
                for (d,opts,M),ch in zip(cand,sel):
                    ne=sum(1 for m in bypos[pos] if (m in d) or g.has_coverage(M,pos))
                    r6+=ne-(1 if ch is not None else 0)
                    if not g.has_coverage(M,pos): continue
                    pres=[m for m in d if m.pos==pos and not m.op.startswith("ins")]
                    if pres: refe+=1-(1 if ch==pres[0] else 0)
                    else: refe+=1-(1 if (ch is not None and ch not in d and not ch.op.startswith("ins")) else 0)
                cv=c(pos,"_")/s if s>0 else 0
                cost+=abs(cv-refe)
                if pc==0:
                    if r6>0: ok=False
                else:
                    if r6>max(pc,c(pos,"_"),maxmut[pos]): ok=False
                if not ok: continue
                # penalties
                novel=set()
                for (d,opts,M),ch in zip(cand,sel):
                    for m in d:
                        if m.pos==pos and ch!=m: cost+=p.minor_miss
                    if ch is not None and ch not in d:
                        cost+=p.minor_add
                        if g.is_functional(ch) and ch not in g.alleles[M].func_muts: novel.add(ch)
                cost+=p.minor_add/2*len(novel)
                if bestp is None or cost<bestp-1e-9: bestp=cost; bestsel=[sel]
                elif abs(cost-bestp)<=1e-9: bestsel.append(sel)
            if bestp is None: feasible=False; break
            tot+=bestp; per_pos_opts.append((pos,bestsel))
        if not feasible: continue
        if best is None or tot<best-1e-9: best=tot; bestA=[(copies,per_pos_opts)]
        elif abs(tot-best)<=1e-9: bestA.append((copies,per_pos_opts))
    return best,bestA
