import warnings; warnings.filterwarnings("ignore")
import logbook
import sys, os, io
from aldy.__main__ import main
from aldy.genotype import genotype
from aldy.common import GRange
def show(res):
    return [(k,[(s.get_major_diplotype(), s.get_minor_diplotype(), round(s.score,4), dict(s.major_solution.cn_solution.solution)) for s in v]) for k,v in res.items()]
os.system("rm -f dbg.tar.gz out1.aldy out2.aldy")
main(["genotype","after419.bam","-g","/tmp/probe/gen.yml","-p","prof.bam","-n","7:7000-7400","--genome","hg19","--debug","/tmp/probe/dbg","-o","out1.aldy"])
os.system("tar tzf dbg.tar.gz")
with open("out2.aldy","w") as f:
    r2=genotype("/tmp/probe/gen.yml","dbg.tar.gz",None,output_file=f)
print(show(r2))
os.system("diff out1.aldy out2.aldy && echo SAME; cat out2.aldy")
