import warnings; warnings.filterwarnings("ignore")
import logbook; logbook.NullHandler().push_application()
from aldy.profile import Profile
for v in ["false","False","FALSE","0",0,False,"true","True","1",1,True,"no","x"]:
    p=Profile("t",phase=v); print(repr(v),"->",p.phase)
for v in ["0.3",0.3,"x","1e-1", None]:
    try:
        p=Profile("t",gap=v); print(repr(v),"->",p.gap)
    except Exception as e: print(repr(v),"ERR",e)
for v in ["3",3,3.7,"3.7"]:
    try:
        p=Profile("t",max_minor_solutions=v); print(repr(v),"->",repr(p.max_minor_solutions))
    except Exception as e: print(repr(v),"ERR",e)
for v in ["10",10,"10.5",10.5]:
    try:
        p=Profile("t",min_quality=v); print("min_quality",repr(v),"->",repr(p.min_quality))
    except Exception as e: print(repr(v),"ERR",e)
p=Profile("t",cn_solution=["1","1"],bogus=3); print(p.cn_solution, hasattr(p,"bogus"))
# name / cn_region/data are in __dict__ too
p=Profile("t",name="zzz",data="oops",cn_region="7:1-2"); print(p.name,p.data,p.cn_region)
