import warnings; warnings.filterwarnings("ignore")
import logbook; logbook.NullHandler().push_application()
from aldy.profile import Profile
p=Profile("x"); print(len(p.__dict__), sorted(p.__dict__))
# OR-tools extraction feasibility
from aldy import lpinterface
m=lpinterface.model("t","any")
x=m.addVar(vtype="B",name="x"); y=m.addVar(vtype="B",name="y"); e=m.addVar(lb=-m.INF,ub=m.INF,name="e")
m.addConstr(x+y+e<=1.4,name="c"); m.addConstr(x+y+e>=1.4,name="c")
z=m.prod(m.addVar(vtype="B",name="z"),[x,y])
m.setObjective(m.abssum([e])+0.1*x)
s=m.model
for c in s.constraints(): print(c.name(), c.lb(), c.ub(), {v.name():c.GetCoefficient(v) for v in s.variables() if c.GetCoefficient(v)})
print({v.name():(s.Objective().GetCoefficient(v),v.lb(),v.ub(),v.integer()) for v in s.variables()}, s.Objective().offset())
print(list(m.solutions(0.5)))
