import warnings; warnings.filterwarnings("ignore")
import logbook; logbook.NullHandler().push_application()
import sys, time, itertools, collections
exec(open("t18.py").read().split("prof=[]")[0].replace('strand=sys.argv[1]; rl=int(sys.argv[2]) if len(sys.argv)>2 else 100','strand=sys.argv[1]; rl=100'))
# region boundaries in refseq 0-based
RB={"up":(0,100),"e1":(100,200),"i1":(200,300),"e2":(300,400),"i2":(400,500),"e3":(500,550),"down":(550,600)}
def hybrid_reads(name, tag, brk_region, kind, depth=20):
    """kind 'left': pseudogene 5' (refseq < start of brk_region) + gene from brk_region on. 'right': gene 5' (< brk) + pseudogene from brk on."""
    b=RB[brk_region][0]
    cols=apply_vars_refseq(w.seq, dbvars(name))
    gene_ev=hap_to_genome_alignment(w, cols, w.off)
    pcols=[[(i,c)] for i,c in enumerate(w.pseq)]
    pse_ev=hap_to_genome_alignment(w, pcols, w.poff)
    def part(ev, base, lo, hi):  # events whose refseq index in [lo,hi)
        out=[]
        for e in ev:
            if e[0]=="I": out.append(e); continue   # keep insertions with neighbours (approx)
            gp=e[1]; r0 = gp-(base-1) if w.strand=="+" else w.L-1-(gp-(base-1))
            if lo<=r0<hi: out.append(e)
        return out
    five_src,three_src = (("P","G") if kind=="left" else ("G","P"))
    def ev_of(src,lo,hi): return part(gene_ev,w.off,lo,hi) if src=="G" else part(pse_ev,w.poff,lo,hi)
    five=ev_of(five_src,0,b); three=ev_of(three_src,b,w.L)
    def flank(src,side):
        base=w.off if src=="G" else w.poff
        if side=="pre": return plain_events(G, base-1-300, base-1)
        return plain_events(G, base-1+w.L, base-1+w.L+300)
    # physical order in refseq orientation: 5' flank, five, three, 3' flank. genome orientation depends on strand.
    if w.strand=="+":
        segA=flank(five_src,"pre")+five; segB=three+flank(three_src,"post")
    else:
        segA=flank(three_src,"pre")+three; segB=five+flank(five_src,"post")
    # tile over concatenation; split reads at junction with soft clips
    allv=segA+segB; J=len([e for e in segA if e[0] in "MI"])
    q_idx=[i for i,e in enumerate(allv) if e[0] in "MI"]; n=len(q_idx); step=rl/depth; x=0.0; k=0; out=[]
    def mk(seg, lead, trail, nm):
        while seg and seg[0][0]!="M": seg=seg[1:]; 
        while seg and seg[-1][0]!="M": seg=seg[:-1]
        if not seg: return None
        cig=[]; seqs=[]
        for op,gp,bs in seg:
            if cig and cig[-1][0]==op: cig[-1][1]+=1
            else: cig.append([op,1])
            if op!="D": seqs.append(bs)
        c="".join(f"{c}{o}" for o,c in cig)
        return (nm, seg[0][1], lead[1]+"".join(seqs)+trail[1], (f"{lead[0]}S" if lead[0] else "")+c+(f"{trail[0]}S" if trail[0] else ""))
    while int(x)+rl<=n:
        a=q_idx[int(x)]; bq=q_idx[int(x)+rl-1]; seg=allv[a:bq+1]
        ia=int(x); ib=int(x)+rl  # query index range
        if ib<=J or ia>=J:
            r=mk(seg,(0,""),(0,""),f"{tag}_{k}")
            if r: out.append(r)
        else:
            cut=q_idx[J]-a
            s1=seg[:cut]; s2=seg[cut:]
            q1="".join(e[2] for e in s1 if e[0]!="D"); q2="".join(e[2] for e in s2 if e[0]!="D")
            if len(q1)>=20:
                r=mk(s1,(0,""),(len(q2),q2),f"{tag}_{k}a"); 
                if r: out.append(r)
            if len(q2)>=20:
                r=mk(s2,(len(q1),q1),(0,""),f"{tag}_{k}b")
                if r: out.append(r)
        x+=step;k+=1
    return out
prof=[]
for c in range(2): prof+=copy_reads("GEN*1.001",f"g{c}")+pseudo_reads(f"p{c}")+neutral_reads(f"n{c}")
write_bam("w/prof.bam",prof,w.chrlen)
NR=GRange("7",w.noff-1,w.noff-1+400)
def chrom(kind,allele,tag):
    if kind=="normal": return copy_reads(allele,tag+"g")+pseudo_reads(tag+"p")
    if kind=="del": return pseudo_reads(tag+"p")
    if kind=="dup": return copy_reads(allele[0],tag+"g1")+copy_reads(allele[1],tag+"g2")+pseudo_reads(tag+"p")
    if kind=="left": return hybrid_reads(allele,tag+"h","e2","left")
    if kind=="right": return hybrid_reads(allele,tag+"h","e3","right")+pseudo_reads(tag+"p")
cases=[
 ("1/del",[("normal","GEN*1.001"),("del",None)]),
 ("2/del",[("normal","GEN*2.002"),("del",None)]),
 ("del/del",[("del",None),("del",None)]),
 ("1+2/3",[("dup",("GEN*1.001","GEN*2.001")),("normal","GEN*3.001")]),
 ("2+2/1",[("dup",("GEN*2.001","GEN*2.001")),("normal","GEN*1.001")]),
 ("left(1)/1",[("left","GEN*1.001"),("normal","GEN*1.001")]),
 ("left(3)/2",[("left","GEN*3.001"),("normal","GEN*2.001")]),
 ("left(8)/1",[("left","GEN*8.001"),("normal","GEN*1.001")]),
 ("right(1)/1",[("right","GEN*1.001"),("normal","GEN*1.001")]),
 ("right(2)/3",[("right","GEN*2.001"),("normal","GEN*3.001")]),
 ("left/left",[("left","GEN*1.001"),("left","GEN*4.001")]),
 ("1+1+1/1",[("dup",("GEN*1.001","GEN*1.001")),("dup",("GEN*1.001","GEN*1.001"))]),
]
for label,chroms in cases:
    reads=[]
    for i,(k,a) in enumerate(chroms): reads+=chrom(k,a,f"c{i}")
    for c in range(2): reads+=neutral_reads(f"n{c}")
    write_bam("w/s.bam",reads,w.chrlen)
    try:
        res=genotype("w/gen.yml","w/s.bam","w/prof.bam",output_file=None,cn_region=NR,genome="hg19")
        sols=list(res.values())[0]
        print(label,"->",[(so.get_major_diplotype(),so.get_minor_diplotype(),round(so.score,3),so.major_solution.cn_solution._solution_nice()) for so in sols])
    except Exception as e:
        print(label,"EXC",repr(e)[:200])
