import warnings; warnings.filterwarnings("ignore")
import logbook; logbook.NullHandler().push_application()
import time, sys, pysam, random
from aldy.gene import Gene
from aldy.common import script_path, GRange, rev_comp
from aldy.genotype import genotype
name=sys.argv[1]
g=Gene(script_path(f"aldy.resources.genes/{name}.yml"),genome="hg19")
w=g.get_wide_region(); print(name,g.chr,w,g.strand,"span",w.end-w.start,len(g.alleles),{k:v for k,v in list(g.mutations.items())[:2]})
s,e=g._lookup_range
LN=max(e,w.end)+3000
rnd=random.Random(1)
# genome-oriented sequence for [w.start-500, w.end+500) ; outside lookup -> random
lo=w.start-600; hi=w.end+600
base={i:(g[i] if g[i]!="N" else rnd.choice("ACGT")) for i in range(lo,hi)}
NR=GRange(g.chr,hi+500,hi+900)
for i in range(NR.start-300,NR.end+300): base[i]=rnd.choice("ACGT")
def hap(allele_minor):
    a,mi=g.get_allele(allele_minor)
    muts=sorted(set(a.func_muts)|set(mi.neutral_muts))
    ev=[]; skip=0; pend={}
    for m in muts: pend.setdefault(m.pos,[]).append(m)
    i=lo
    while i<hi:
        ms=pend.get(i,[])
        did=False
        for m in ms:
            if ">" in m.op and len(m.op)==3: ev.append(("M",i,m.op[2])); did=True
        dels=[m for m in ms if m.op.startswith("del")]
        if dels:
            L=len(dels[0].op)-3
            for k in range(L): ev.append(("D",i+k,None))
            i+=L; continue
        if not did: ev.append(("M",i,base[i]))
        for m in ms:
            if m.op.startswith("ins"):
                for c in m.op[3:]: ev.append(("I",None,c))
        i+=1
    return ev
def tile(ev,rl,depth,tag):
    q=[k for k,x in enumerate(ev) if x[0] in "MI"]; n=len(q); out=[]; x=0.0; k=0
    while int(x)+rl<=n:
        seg=ev[q[int(x)]:q[int(x)+rl-1]+1]
        while seg and seg[0][0]!="M": seg=seg[1:]
        while seg and seg[-1][0]!="M": seg=seg[:-1]
        cig=[];sq=[]
        for op,gp,b in seg:
            if cig and cig[-1][0]==op: cig[-1][1]+=1
            else: cig.append([op,1])
            if op!="D": sq.append(b)
        out.append((f"{tag}{k}",seg[0][1],"".join(sq),"".join(f"{c}{o}" for o,c in cig))); x+=rl/depth; k+=1
    return out
def write_bam(path,reads):
    hdr={"HD":{"VN":"1.0","SO":"coordinate"},"SQ":[{"SN":g.chr,"LN":LN}]}
    with pysam.AlignmentFile(path,"wb",header=hdr) as f:
        for n,pos,sq,cg in sorted(reads,key=lambda r:r[1]):
            a=pysam.AlignedSegment(); a.query_name=n; a.query_sequence=sq; a.flag=0; a.reference_id=0; a.reference_start=pos; a.mapping_quality=60; a.cigarstring=cg; a.query_qualities=pysam.qualitystring_to_array("I"*len(sq)); f.write(a)
    pysam.index(path)
minors=[mi for a in g.alleles.values() for mi in a.minors][:6]
neutral=[("M",i,base[i]) for i in range(NR.start-300,NR.end+300)]
for x,y in [(minors[0],minors[1]),(minors[2],minors[3]),(minors[4],minors[5])]:
    reads=tile(hap(x),100,20,"a")+tile(hap(y),100,20,"b")+tile(neutral,100,20,"n1")+tile(neutral,100,20,"n2")
    write_bam("w/ship.bam",reads)
    t=time.time()
    try:
        res=genotype(name,"w/ship.bam","illumina",output_file=None,cn_region=NR,genome="hg19")
        print(x,y,"->",[(s.get_minor_diplotype()) for s in list(res.values())[0]],round(time.time()-t,2),"s")
    except Exception as ex: print(x,y,"EXC",repr(ex)[:200],round(time.time()-t,2))
