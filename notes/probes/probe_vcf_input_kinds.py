import warnings; warnings.filterwarnings("ignore")
import logbook; logbook.NullHandler().push_application()
import sys, pysam
import sys; sys.path.insert(0,"/tmp/aldy_scratch")
exec(open("t4.py").read().split("# reference sample")[0])
def write_vcf(path, recs, samples=("S1",)):
    with open(path,"w") as f:
        f.write("##fileformat=VCFv4.2\n##contig=<ID=7,length=9000>\n##FORMAT=<ID=GT,Number=1,Type=String,Description=\"GT\">\n")
        f.write("#CHROM\tPOS\tID\tREF\tALT\tQUAL\tFILTER\tINFO\tFORMAT\t"+"\t".join(samples)+"\n")
        for pos1,ref,alt,gts in sorted(recs):
            f.write(f"7\t{pos1}\t.\t{ref}\t{alt}\t.\tPASS\t.\tGT\t"+"\t".join(gts)+"\n")
    pysam.tabix_index(path, preset="vcf", force=True)
    return path+".gz"
g=Gene("gen.yml",genome="hg19")
def rec_for(m):
    pos,op=m
    if ">" in op: return (pos+1, op[0], op[2])
    if op.startswith("ins"): return (pos+1, g[pos], g[pos]+op[3:])      # anchor = pos
    if op.startswith("del"): return (pos, g[pos-1], None) 
cases={"snp*2":[(3149+1,g[3149],"A",["0/1"])],
       "del*3":[(3349, g[3348]+"GTC", g[3348], ["0/1"])],
       "ins*4(anchor=pos)":[(3419+1, g[3419], g[3419]+"GATTACA", ["0/1"])],
       "ins*4(anchor=pos-1)":[(3419, g[3418], g[3418]+"GATTACA", ["0/1"])],
       "hom snp":[(3149+1,g[3149],"A",["1/1"])],
      }
for n,recs in cases.items():
    p=write_vcf(f"v.vcf",recs)
    try:
        res=genotype("gen.yml",p,None,output_file=None,genome="hg19")
        for k,v in res.items():
            for s in v: print(n,"->",s.get_major_diplotype(), s.get_minor_diplotype(), s.score)
    except Exception as e: print(n,"EXC",type(e),e)
