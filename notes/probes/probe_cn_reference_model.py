import warnings; warnings.filterwarnings("ignore")
import logbook; logbook.NullHandler().push_application()
import sys, time, collections, itertools, random
from aldy.gene import Gene, Mutation, CNConfigType
from aldy.common import script_path
from aldy.profile import Profile
from aldy.cn import solve_cn_model
g=Gene(script_path("aldy.tests.resources/toy.yml"))
def ref_cn(g,p,configs,max_cn,rc,fusion_support=None):
    dele=g.deletion_allele()
    names=[n for n in configs if not fusion_support or n=="1" or (dele and n==dele) or (n in fusion_support and fusion_support[n]>=1/(2*max_cn))]
    haspg=len(g.regions)>1
    U=g.unique_regions; nU=len(U)
    PP=10.0/nU*0.75
    pen={n:PP for n in names}; pen["PSEUDO"]=PP
    for n,sv in g.cn_configs.items():
        if n in pen and sv.kind==CNConfigType.RIGHT_FUSION: pen[n]+=PP*p.cn_fusion_right
        if n in pen and sv.kind==CNConfigType.LEFT_FUSION: pen[n]+=PP*p.cn_fusion_left
    default=[n for n in names if configs[n].kind==CNConfigType.DEFAULT]
    out=[]
    # complete slots: multiset of size 2 over names (pair (a,a) uses slots 0,-1)
    for pair in itertools.combinations_with_replacement(names,2):
        double_del = dele and pair==(dele,dele)
        for k in range(0,max_cn):      # weak copies of default (each default config!) 
          for kp in range(0,(max_cn+1) if (haspg and dele) else 1):
            if double_del and (k or kp): continue
            if not default and k: continue
            items=list(pair)+[default[0]]*k if k else list(pair)
            cn0=collections.Counter(); cn1=collections.Counter()
            for a in pair:
                for r in U:
                    cn0[r]+=configs[a].cn[0].get(r,0)
                    if haspg: cn1[r]+=configs[a].cn[1].get(r,0)
            for _ in range(k):
                for r in U:
                    cn0[r]+=configs[default[0]].cn[0].get(r,0)
                    if haspg: cn1[r]+=configs[default[0]].cn[1].get(r,0)-1
            for _ in range(kp):
                for r in U:
                    cn0[r]+=configs[dele].cn[0].get(r,0)
                    cn1[r]+=configs[dele].cn[1].get(r,0)
            diff=0; fit=0; ok=True
            for r in U:
                c0,c1=rc[r]
                scale=max(c0,c1)+1
                e=(c0-c1)/scale-(cn0[r]-cn1[r])/scale
                eg=c0-cn0[r]
                if abs(e)>p.cn_max+1e-9 or abs(eg)>p.cn_max+1e-9: ok=False
                diff+=abs(e)*(p.cn_pce_penalty if r=="pce" else 1)
                fit+=abs(eg)
            if not ok: continue
            obj=p.cn_diff/nU*diff+p.cn_fit/nU*fit+p.cn_parsimony*(sum(pen[a] for a in items)+kp*pen["PSEUDO"])
            fold=tuple(sorted(a for a in items if a!=dele))
            act=frozenset([(pair[0],0),(pair[1],-1 if pair[0]==pair[1] else 0)]+[(default[0],i+1) for i in range(k)]+[("PSEUDO",i+1) for i in range(kp)]) if True else None
            out.append((obj,fold,act))
    return out
def expected(out,gap):
    # simulate enumeration: nondecreasing obj, superset exclusion
    if not out: return {}
    out=sorted(out,key=lambda x:x[0])
    best=out[0][0]; ub=(1+gap)*best
    yielded=[]; res={}
    for obj,fold,act in out:
        if obj>ub+1e-9: break
        if any(y<=act for y in yielded): continue
        yielded.append(act)
        if fold not in res: res[fold]=obj
    return res
random.seed(int(sys.argv[1]) if len(sys.argv)>1 else 0)
n=bad=0; t=time.time()
allnames=list(g.cn_configs)
for it in range(150):
    p=Profile("t"); p.gap=random.choice([0,0.1,0.3])
    max_cn=random.choice([3,4,5])
    plant=[random.choice(allnames) for _ in range(random.choice([1,2,2,3,4]))]
    rc={}
    for r in g.unique_regions:
        c0=sum(g.cn_configs[a].cn[0][r] for a in plant); c1=sum(g.cn_configs[a].cn[1][r] for a in plant)
        rc[r]=(max(0,c0+random.choice([0,0,0.1,-0.2,0.5,-0.5])),max(0,c1+random.choice([0,0,0.1,-0.2,0.3])))
    sols=solve_cn_model(g,p,g.cn_configs,max_cn,rc,"any")
    got={tuple(sorted(s.solution.elements())):s.score for s in sols}
    ref=expected(ref_cn(g,p,g.cn_configs,max_cn,rc),p.gap)
    n+=1
    same=set(got)==set(ref) and all(abs(got[k]-ref[k])<1e-4 for k in got)
    if not same:
        bad+=1
        if bad<6: print("DIFF",p.gap,max_cn,plant,rc,"\n got",sorted(got.items(),key=lambda x:x[1]),"\n ref",sorted(ref.items(),key=lambda x:x[1]))
print("n",n,"bad",bad,time.time()-t)
