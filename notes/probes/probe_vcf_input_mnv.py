import warnings; warnings.filterwarnings("ignore")
import logbook; logbook.NullHandler().push_application()
import sys, pysam
sys.argv=["x","+"]
exec(open("t18.py").read().split("G=w.genome()")[0])
G=w.genome()
def write_vcf(path, recs, samples=("S1",)):
    with open(path,"w") as f:
        f.write("##fileformat=VCFv4.2\n##contig=<ID=7,length=12000>\n##FORMAT=<ID=GT,Number=1,Type=String,Description=\"GT\">\n")
        f.write("#CHROM\tPOS\tID\tREF\tALT\tQUAL\tFILTER\tINFO\tFORMAT\t"+"\t".join(samples)+"\n")
        for pos1,ref,alt,gts in sorted(recs):
            f.write(f"7\t{pos1}\t.\t{ref}\t{alt}\t.\tPASS\t.\tGT\t"+"\t".join(gts)+"\n")
    pysam.tabix_index(path, preset="vcf", force=True)
    return path+".gz"
mnv=[m for m in g.mutations if ">" in m[1] and len(m[1])>3][0]
print("MNV",mnv, g.mutations[mnv])
pos,op=mnv; l,r=op.split(">")
cases={
 "one record": [(pos+1,l,r,["0/1"])],
 "adjacent records": [(pos+1+i,l[i],r[i],["0/1"]) for i in range(len(l))],
 "adjacent phased": [(pos+1+i,l[i],r[i],["0|1"]) for i in range(len(l))],
 "hom adjacent": [(pos+1+i,l[i],r[i],["1/1"]) for i in range(len(l))],
}
for n,recs in cases.items():
    p=write_vcf("w/v.vcf",recs)
    try:
        res=genotype("w/gen.yml",p,None,output_file=None,genome="hg19")
        for k,v in res.items():
            for s in v: print(n,"->",s.get_major_diplotype(), s.get_minor_diplotype(), round(s.score,3))
    except Exception as e: print(n,"EXC",type(e),e)
