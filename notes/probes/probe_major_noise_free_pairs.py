import warnings; warnings.filterwarnings("ignore")
import logbook; logbook.NullHandler().push_application()
import sys, time, collections, itertools
from aldy.gene import Gene, Mutation
from aldy.common import script_path
from aldy.profile import Profile
from aldy.major import estimate_major
from aldy.minor import estimate_minor
from aldy.solutions import CNSolution
from aldy.coverage import Coverage
name=sys.argv[1]; build=sys.argv[2] if len(sys.argv)>2 else "hg19"
g=Gene(script_path(f"aldy.resources.genes/{name}.yml"),genome=build)
p=Profile("t")
D=20
def plant(alleles):  # list of (major, minor)
    cn=CNSolution(g,0,[g.alleles[a].cn_config for a,_ in alleles])
    sites=collections.defaultdict(lambda: collections.Counter())
    allpos={m.pos for m in map(lambda x:Mutation(*x), g.mutations)}
    muts=[Mutation(*x) for x in g.mutations]
    bypos=collections.defaultdict(list)
    for m in muts: bypos[m.pos].append(m)
    for (a,mi) in alleles:
        al=g.alleles[a]
        am=set(al.func_muts)|set(al.minors[mi].neutral_muts)
        for pos in bypos:
            if not g.has_coverage(a,pos): continue
            here=[m for m in am if m.pos==pos]
            nonins=[m for m in here if not m.op.startswith("ins")]
            for m in here:
                sites[pos][m.op]+=D
            if not nonins: sites[pos]["_"]+=D
    cov={pos:{op:[(60,60)]*c for op,c in d.items()} for pos,d in sites.items()}
    return cn, Coverage(g,p,None,cov,None,{})
majors=[a for a in g.alleles]
t=time.time(); n=0; bad=0; multi=0
pairs=list(itertools.combinations_with_replacement(majors,2))
if len(pairs)>1500: 
    import random; random.seed(0); pairs=random.sample(pairs,1500)
for a,b in pairs:
    if g.alleles[a].cn_config!="1" and g.cn_configs[g.alleles[a].cn_config].kind.name=="DELETION": pass
    als=[(a,next(iter(g.alleles[a].minors))),(b,next(iter(g.alleles[b].minors)))]
    try:
        cn,cov=plant(als)
        sols=estimate_major(g,cov,cn,"any")
    except Exception as e:
        print("EXC",a,b,type(e),e); bad+=1; continue
    n+=1
    want=collections.Counter([a,b])
    got=[collections.Counter({s.major:c for s,c in so.solution.items()}) for so in sols]
    ok=[so for so,gg in zip(sols,got) if gg==want and not so.added and abs(so.score)<1e-6]
    if len(sols)>1: multi+=1
    if not ok:
        bad+=1
        if bad<=10: print("MISS",a,b,[(dict(gg),round(so.score,3),so.added) for so,gg in zip(sols,got)][:4])
print(name,build,"pairs",n,"bad",bad,"multi",multi,"time",time.time()-t)
