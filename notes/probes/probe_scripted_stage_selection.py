import warnings; warnings.filterwarnings("ignore")
import logbook; logbook.NullHandler().push_application()
import sys, time, collections, itertools, types, io
import aldy.genotype as G
from aldy import sam, cn, major, minor
from aldy.gene import Gene, Mutation
from aldy.common import script_path, AldyException, SOLUTION_PRECISION
from aldy.profile import Profile
from aldy.solutions import CNSolution, MajorSolution, SolvedAllele, MinorSolution
from aldy.coverage import Coverage
from aldy.diplotype import estimate_diplotype
TOY=script_path("aldy.tests.resources/toy.yml")
# stub Sample
class FakeSample:
    def __init__(self, gene, profile, path, reference=None, debug=None):
        self.gene=gene; self.profile=profile; self.name="S"; self.is_long_read=False; self.phases={}
        self.coverage=Coverage(gene,profile,self,{100000104:{"_":[(60,60)]*40}},None,{})
        self.coverage.average_coverage=lambda: 40.0
script=None
def fake_cn(gene, profile, coverage, solver, debug=None):
    return [CNSolution(gene, sc, list(conf)) for conf,sc,_ in script]
def fake_major(gene, coverage, cn_solution, solver, identifier=0, debug=None):
    for conf,sc,majors in script:
        if collections.Counter(conf)==cn_solution.solution:
            return [MajorSolution(ms, collections.Counter(SolvedAllele(gene,a) for a in als), cn_solution, []) for als,ms,_ in majors]
    return []
def fake_solve_minor(gene, coverage, major_sol, alleles_list, mutations, solver, max_solutions=1):
    for conf,sc,majors in script:
        if collections.Counter(conf)==major_sol.cn_solution.solution:
            for als,ms,minors in majors:
                if collections.Counter(SolvedAllele(gene,a) for a in als)==major_sol.solution:
                    out=[]
                    for mins,sc2 in minors:
                        s=MinorSolution(sc2,[SolvedAllele(gene,a,mi) for a,mi in zip(als,mins)],major_sol,coverage.profile)
                        estimate_diplotype(gene,s); out.append(s)
                    return out
    return []
sam.Sample=FakeSample
sam.detect_genome=lambda p:("sam","hg19")
cn.estimate_cn=fake_cn; major.estimate_major=fake_major; minor.solve_minor_model=fake_solve_minor
def run(scr,gap):
    global script; script=scr
    return G.genotype(TOY, TOY, "illumina", output_file=None, cn_solution=None, solver="any", genome="hg19", gap=gap) 
# need profile: Profile.load(gene,"illumina") requires TOY in illumina profile -> patch Profile.load
G.Profile.load=staticmethod(lambda gene,profile,cn_region=None,**params: Profile("stub",cn_region=("20",1,2),data={},**params))
def oracle(scr,gap):
    cns=[(conf,sc) for conf,sc,_ in scr]
    if not cns: return "ERR"
    mincn=min(sc for _,sc in cns)
    majors=[]
    for conf,sc,ml in scr:
        for als,ms,minors in ml: majors.append((conf,sc,als,ms+(sc-mincn),minors))
    if not majors: return "ERR"
    mm=min(m[3] for m in majors)
    kept=[m for m in majors if m[3]-mm-gap<SOLUTION_PRECISION]
    kmin=min(m[3] for m in kept)
    fin=[]
    for conf,sc,als,msc,minors in kept:
        for mins,sc2 in minors:
            fin.append((((sc2+(msc-kmin))*((sc+1)/(mincn+1))),tuple(sorted(mins))))
    if not fin: return "ERR"
    fm=min(f[0] for f in fin)
    return sorted((round(f[0],6),f[1]) for f in fin if f[0]-fm-gap<SOLUTION_PRECISION)
cn_scores=[0.75,0.755,0.9,1.5]; mj_scores=[0,0.004,0.2,1.0]; mn_scores=[0,0.009,0.3,2.0]
confs=[("1","1"),("1","1","1")]
maj_menu={("1","1"):[("1","2"),("1","3")],("1","1","1"):[("1","1","2")]}
min_of={"1":"1.001","2":"2.001","3":"3.001"}
n=bad=0;t=time.time(); outcomes=collections.Counter()
for gap in (0,0.1,0.3):
  for c1 in cn_scores:
    for c2 in cn_scores[:3]:
      for m1 in mj_scores:
        for m2 in mj_scores[:3]:
          for m3 in mj_scores[:3]:
            for k1 in mn_scores[:3]:
              for k2 in mn_scores[:3]:
                scr=[(confs[0],c1,[(maj_menu[confs[0]][0],m1,[(tuple(min_of[a] for a in maj_menu[confs[0]][0]),k1)]),(maj_menu[confs[0]][1],m2,[(tuple(min_of[a] for a in maj_menu[confs[0]][1]),k2)])]),
                     (confs[1],c2,[(maj_menu[confs[1]][0],m3,[(tuple(min_of[a] for a in maj_menu[confs[1]][0]),0.0)])])]
                try:
                    res=run(scr,gap); got=sorted((round(s.score,6),tuple(sorted(a.minor for a in s.solution))) for s in list(res.values())[0])
                except AldyException as e: got="ERR"
                exp=oracle(scr,gap); n+=1; outcomes[str([x[1] for x in got])]+=1
                if got!=exp:
                    bad+=1
                    if bad<4: print("DIFF",gap,scr,"\n got",got,"\n exp",exp)
print("n",n,"bad",bad,"distinct outcomes",len(outcomes),time.time()-t)
