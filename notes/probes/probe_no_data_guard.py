import warnings; warnings.filterwarnings("ignore")
import logbook; logbook.NullHandler().push_application()
import sys
sys.argv=["x"]
exec(open("t4.py").read().split("# reference sample")[0])
from aldy.common import AldyException
def run(name, reads, **kw):
    write_bam(name, reads)
    for label,args in [("profile-bam",dict(profile_name="prof.bam",cn_region=GRange("7",7000,7400))),("user-cn",dict(profile_name=None,cn_solution=["1","1"]))]:
        try:
            res=genotype("gen.yml",name,output_file=None,genome="hg19",**args,**kw)
            for k,v in res.items():
                for s in v: print(name,label,"->",s.get_major_diplotype(), s.get_minor_diplotype(), s.score, dict(s.major_solution.cn_solution.solution))
        except AldyException as e:
            print(name,label,"AldyException:",str(e)[:100])
        except Exception as e:
            print(name,label,"EXC",type(e),str(e)[:100])
neutral=[]
for c in range(2): neutral+=reads_from(G[6900:7500],6900,None,20,name=f"n{c}_")
pseudo=[]
for c in range(2): pseudo+=reads_from(G[4800:5800],4800,None,20,name=f"p{c}_")
gene=[]
for c in range(2): gene+=reads_from(G[2800:3800],2800,None,20,name=f"g{c}_")
run("only_neutral.bam", neutral)
run("pseudo_only.bam", neutral+pseudo)
run("no_neutral.bam", gene+pseudo)
low=reads_from(G[2800:3800],2800,None,1,name="g_")+reads_from(G[4800:5800],4800,None,1,name="p_")
run("low.bam", neutral+low)
