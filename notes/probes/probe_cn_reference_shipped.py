import warnings; warnings.filterwarnings("ignore")
import logbook; logbook.NullHandler().push_application()
import sys, random, itertools, time
src=open("t13.py").read()
src=src.replace('g=Gene(script_path("aldy.tests.resources/toy.yml"))','g=Gene(script_path("aldy.resources.genes/%s.yml"))' % sys.argv[1])
exec(src.split("random.seed")[0])
random.seed(3)
names=sys.argv[2].split(",")
configs={n:g.cn_configs[n] for n in names}
print(g.unique_regions, {n:c.vector for n,c in configs.items()})
n=bad=0;t=time.time()
for it in range(60):
    p=Profile("t"); p.gap=random.choice([0,0.1,0.3]); max_cn=random.choice([3,4,5])
    plant=[random.choice(names) for _ in range(random.choice([1,2,2,3,4]))]
    rc={}
    for r in g.unique_regions:
        c0=sum(g.cn_configs[a].cn[0][r] for a in plant); c1=sum(g.cn_configs[a].cn[1][r] for a in plant) if len(g.regions)>1 else 0
        rc[r]=(max(0,c0+random.choice([0,0,0.1,-0.2,0.5,-0.5])),max(0,c1+random.choice([0,0,0.1,-0.2,0.3])) if len(g.regions)>1 else 0.0)
    sols=solve_cn_model(g,p,configs,max_cn,rc,"any")
    got={tuple(sorted(s.solution.elements())):s.score for s in sols}
    ref=expected(ref_cn(g,p,configs,max_cn,rc),p.gap)
    n+=1
    same=set(got)==set(ref) and all(abs(got[k]-ref[k])<1e-4 for k in got)
    if not same:
        bad+=1
        if bad<4: print("DIFF",p.gap,max_cn,plant,"\n got",sorted(got.items(),key=lambda x:x[1])[:6],"\n ref",sorted(ref.items(),key=lambda x:x[1])[:6])
print(sys.argv[1],"n",n,"bad",bad,time.time()-t)
