import warnings; warnings.filterwarnings("ignore")
import logbook; logbook.NullHandler().push_application()
import sys, itertools, collections, yaml
from collections import defaultdict
from sim import *
from aldy.gene import Gene
from aldy.sam import Sample
from aldy.profile import Profile
from aldy.coverage import Coverage
w=World(strand=sys.argv[1] if len(sys.argv)>1 else "+")
s=w.seq
def snp(p1,alt=None):
    r=s[p1-1]; a=alt or COMP[r]; return [p1,f"{r}>{a}"]
alleles={"GEN*1.001":{"mutations":[]},
 "GEN*2.001":{"mutations":[snp(150)+["rs150","functional"]]},
 "GEN*5.001":{"mutations":[[152,f"{s[151:153]}>{COMP[s[151]]+COMP[s[152]]}","rs152","functional"]]},
 "GEN*3.001":{"mutations":[[156,f"del{s[155:157]}","rs156","frameshift"]]},
}
open("w/g6.yml","w").write(w.yaml(alleles)); g=Gene("w/g6.yml",genome="hg19")
G=w.genome()
print(g.mutations.keys(), g._lookup_range if hasattr(g,'_lookup_range') else None)
def shell():
    sm=Sample.__new__(Sample); sm.gene=g; sm.phases={}; sm._indel_sites={}; sm._indel_sites_eqs={}
    sm._multi_sites={m.pos:m.op for a in g.alleles.values() for m in a.func_muts if ">" in m.op and len(m.op)>3}
    sm.phaseable={pos:i for i,pos in enumerate(sorted({pos for pos,_ in g.mutations}))}
    return sm
# window: genome positions around mutations
lo=min(p for p,_ in g.mutations)-3; hi=max(p for p,_ in g.mutations)+6
print("window",lo,hi,G[lo:hi])
OPS={"M":0,"I":1,"D":2,"S":4,"=":7,"X":8}
def ref_interp(start,cigar,seq):
    """independent interpreter -> per-position observations: dict pos -> list of ('_'|'X>Y'|'-'), and insertions list"""
    obs=defaultdict(list); ins=[]; r=start; q=0
    for op,n in cigar:
        if op in "M=X":
            for i in range(n):
                b=seq[q+i]; rp=r+i
                if rp in g.chr_to_ref and g[rp]!=b: obs[rp].append(f"{g[rp]}>{b}")
                else: obs[rp].append("_")
            r+=n;q+=n
        elif op=="I": ins.append((r,seq[q:q+n])); q+=n
        elif op=="D":
            for i in range(n): obs[r+i].append("-")
            r+=n
        elif op=="S": q+=n
    return obs,ins
# enumerate cigars: up to 4 ops, lengths 1..3, must start/end arbitrary; sequences: ref bases, with optional single mismatch / MNP at any aligned column
count=0; bad=0; shapes=0
mnp=[(p,o) for (p,o) in g.mutations if ">" in o and len(o)>3][0]
for nops in range(1,5):
    for ops in itertools.product("MIDS=X",repeat=nops):
        if any(a==b for a,b in zip(ops,ops[1:]) if a in "IDS"): pass
        # S only at ends
        if any(o=="S" for o in ops[1:-1]): continue
        for lens in itertools.product([1,2,3],repeat=nops):
            cigar=list(zip(ops,lens))
            qlen=sum(n for o,n in cigar if o in "MIS=X"); rlen=sum(n for o,n in cigar if o in "MD=X")
            if rlen==0: continue
            shapes+=1
            for start in range(lo,hi-rlen+1,1):
                # build query: ref bases for aligned, 'T'.. for ins/softclip
                q=[];r=start; aligned_cols=[]
                for o,n in cigar:
                    if o in "M=X":
                        for i in range(n): aligned_cols.append((len(q),r+i)); q.append(G[r+i])
                        r+=n
                    elif o=="I" or o=="S": q+= ["G"]*n
                    elif o=="D": r+=n
                variants=[None]+[("snp",k) for k in range(len(aligned_cols))]
                for v in variants:
                    qq=list(q)
                    if v: 
                        qi,rp=aligned_cols[v[1]]; qq[qi]=COMP[qq[qi]]
                    seq="".join(qq)
                    sm=shell(); norm=defaultdict(list); muts=defaultdict(list)
                    sm._parse_read("r1",start,[(OPS[o],n) for o,n in cigar],seq,norm,muts,60,[30]*len(seq))
                    obs,ins=ref_interp(start,cigar,seq)
                    count+=1
                    # compare depth per position
                    got=defaultdict(int)
                    for p,l in norm.items(): got[p]+=len(l)
                    for (p,o),l in muts.items():
                        if not o.startswith("ins"): got[p]+=len(l)
                    exp={p:len(l) for p,l in obs.items()}
                    got={p:c for p,c in got.items() if c}
                    if got!=exp:
                        bad+=1
                        if bad<6: print("DEPTH",start,cigar,seq,dict(got),exp)
print("shapes",shapes,"reads",count,"bad",bad)
