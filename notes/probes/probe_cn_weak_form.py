import warnings; warnings.filterwarnings("ignore")
import logbook; logbook.NullHandler().push_application()
import sys, random, itertools
exec(open("t13.py").read().split("random.seed")[0])
random.seed(5)
allnames=list(g.cn_configs)
viol=0; n=0; missing_bad=0
for it in range(300):
    p=Profile("t"); p.gap=random.choice([0.1,0.3])
    max_cn=random.choice([3,4,5,6])
    plant=[random.choice(allnames) for _ in range(random.choice([1,2,2,3,4]))]
    rc={}
    for r in g.unique_regions:
        c0=sum(g.cn_configs[a].cn[0][r] for a in plant); c1=sum(g.cn_configs[a].cn[1][r] for a in plant)
        rc[r]=(max(0,c0+random.choice([0,0,0.1,-0.2,0.5,-0.5])),max(0,c1+random.choice([0,0,0.1,-0.2,0.3])))
    allx=ref_cn(g,p,g.cn_configs,max_cn,rc)
    sols=solve_cn_model(g,p,g.cn_configs,max_cn,rc,"any")
    got={tuple(sorted(s.solution.elements())):s.score for s in sols}
    bestof={}
    for obj,fold,act in allx: bestof[fold]=min(bestof.get(fold,1e9),obj)
    n+=1
    for T,sc in got.items():
        if abs(sc-bestof[T])>1e-4:
            viol+=1
            if viol<5: print("SCORE-NOT-BEST",p.gap,max_cn,plant,rc,T,sc,bestof[T])
    best=min(bestof.values()); ub=(1+p.gap)*best
    for T,o in bestof.items():
        if o<ub-1e-4 and T not in got:
            # must contain a reported structure scoring no worse
            import collections
            ok=any((collections.Counter(R)-collections.Counter(T))==collections.Counter() and got[R]<=o+1e-4 for R in got)
            if not ok:
                missing_bad+=1
                if missing_bad<5: print("MISSING",p.gap,max_cn,rc,T,o,got)
print(n,"score-not-best",viol,"missing-bad",missing_bad)
