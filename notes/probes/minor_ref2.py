# probe: joint brute-force reference for the minor model incl. phasing
import itertools, collections
from aldy.gene import Mutation
from minor_ref import filt
def ref_minor_joint(g,p,f,major_counts,cn,considered,phases=None,pooled=None):
    def c(pos,op): return len(f.get(pos,{}).get(op,[]))
    def total(pos): return sum(len(l) for op,l in f.get(pos,{}).items() if not op.startswith("ins"))
    def scov(pos):
        pc=cn.position_cn(pos); return 0 if pc==0 else max(1,total(pos))/pc
    considered=sorted(set(considered)); positions=sorted({m.pos for m in considered})
    bypos=collections.defaultdict(list)
    for m in considered: bypos[m.pos].append(m)
    pooled=pooled or [(M,mi) for M in major_counts for mi in g.alleles[M].minors]
    def defn(M,mi): return set(g.alleles[M].func_muts)|set(g.alleles[M].minors[mi].neutral_muts)
    def ncand(M,mi,pos):
        d=defn(M,mi); return sum(1 for m in bypos[pos] if (m in d) or g.has_coverage(M,pos))
    maxmut={pos:max([ncand(M,mi,pos) for M,mi in pooled]+[0]) for pos in positions}
    modes=collections.Counter()
    mut_pos=set(positions)
    for rv in (phases or {}).values():
        cc=sorted((k,v) for k,v in rv.items() if k in mut_pos)
        if len(cc)>1: modes[tuple(cc)]+=1
    groups=[[tuple((M,mi) for mi in combo) for combo in itertools.combinations_with_replacement(sorted(g.alleles[M].minors),cnt)] for M,cnt in sorted(major_counts.items())]
    best=None; arg=[]
    for combo in itertools.product(*groups):
        copies=[x for grp in combo for x in grp]
        # per copy options: tuple of choice per position
        percopy=[]
        for (M,mi) in copies:
            d=defn(M,mi); opts=[]
            for pos in positions:
                o=[None]+[m for m in bypos[pos] if g.has_coverage(M,pos)]
                core=[m for m in d if m.pos==pos and g.is_functional(m)]
                if core:
                    o=[m for m in o if m==core[0]] if len(core)==1 else []
                opts.append(o)
            percopy.append((M,mi,d,opts))
        for sel in itertools.product(*[itertools.product(*pc[3]) for pc in percopy]):
            cost=0; ok=True
            for pi,pos in enumerate(positions):
                s=scov(pos); pcn=cn.position_cn(pos)
                chs=[sel[ci][pi] for ci in range(len(copies))]
                carr=collections.Counter(ch for ch in chs if ch is not None)
                for m in bypos[pos]:
                    k=carr.get(m,0)
                    if pcn==0 or c(pos,m.op)==0:
                        if k>0: ok=False;break
                    elif k>c(pos,m.op) or k<1: ok=False;break
                    cost+=abs((c(pos,m.op)/s if s>0 else 0)-k)
                if not ok: break
                refe=0;r6=0
                for (M,mi,d,_),ch in zip(percopy,chs):
                    r6+=ncand(M,mi,pos)-(1 if ch is not None else 0)
                    if not g.has_coverage(M,pos): continue
                    pres=[m for m in d if m.pos==pos and not m.op.startswith("ins")]
                    if pres: refe+=1-(1 if ch==pres[0] else 0)
                    else: refe+=1-(1 if (ch is not None and ch not in d and not ch.op.startswith("ins")) else 0)
                cost+=abs((c(pos,"_")/s if s>0 else 0)-refe)
                if pcn==0:
                    if r6>0: ok=False;break
                elif r6>max(pcn,c(pos,"_"),maxmut[pos]): ok=False;break
                novel=set()
                for (M,mi,d,_),ch in zip(percopy,chs):
                    for m in d:
                        if m.pos==pos and ch!=m: cost+=p.minor_miss
                    if ch is not None and ch not in d:
                        cost+=p.minor_add
                        if g.is_functional(ch) and ch not in g.alleles[M].func_muts: novel.add(ch)
                cost+=p.minor_add/2*len(novel)
            if not ok: continue
            # phase
            for rr,cnt in modes.items():
                r=dict(rr); errs=[]
                # any pooled allele with PH var?
                def lists(M,carried):
                    ps=[];ng=[]
                    for m in considered:
                        if m.pos not in r or not g.has_coverage(M,m.pos): continue
                        (ps if m.op==r[m.pos] else ng).append(m)
                    return ps,ng
                anyvar=any(sum(map(len,lists(M,None)))>1 for M,mi in pooled)
                for ci,(M,mi,d,_) in enumerate(percopy):
                    ps,ng=lists(M,None)
                    if len(ps)+len(ng)>1:
                        carried={ch for ch in sel[ci] if ch is not None}
                        errs.append(sum(1 for m in ps if m not in carried)+sum(1 for m in ng if m in carried))
                if errs: cost+=p.minor_phase*cnt*min(errs)
                elif anyvar: ok=False;break
            if not ok: continue
            if best is None or cost<best-1e-9: best=cost; arg=[(copies,sel)]
            elif abs(cost-best)<=1e-9: arg.append((copies,sel))
    return best,arg
