import warnings; warnings.filterwarnings("ignore")
import logbook; logbook.NullHandler().push_application()
import sys, itertools, collections
from aldy.gene import Gene, Mutation
from aldy.common import script_path
from aldy.profile import Profile
from aldy.solutions import CNSolution, MajorSolution, SolvedAllele, MinorSolution
from aldy.diplotype import estimate_diplotype
from natsort import natsorted
gname=sys.argv[1]
g=Gene(script_path("aldy.tests.resources/toy.yml")) if gname=="toy" else Gene(script_path(f"aldy.resources.genes/{gname}.yml"))
dele=g.deletion_allele()
names=[a for a in g.alleles if a!=dele]
if len(names)>10:
    t={x for p in g.common_tandems for x in p}
    names=[a for a in names if a.split("#")[0] in t][:8]+names[:4]
    names=list(dict.fromkeys(names))
print(gname,"alphabet",names,"tandems",g.common_tandems,"del",dele)
p=Profile("t"); bad=collections.Counter(); n=0
ex={}
for k in range(0,5):
    for ms in itertools.combinations_with_replacement(names,k):
        strings=set()
        perms=set(itertools.permutations(ms))
        for perm in perms:
            cn=CNSolution(g,0,[g.alleles[a].cn_config for a in perm])
            maj=MajorSolution(0,collections.Counter(SolvedAllele(g,a) for a in perm),cn,[])
            sol=MinorSolution(0,[SolvedAllele(g,a,next(iter(g.alleles[a].minors))) for a in perm],maj,p)
            try:
                d=estimate_diplotype(g,sol)
            except Exception as e:
                bad["exc"]+=1; ex.setdefault("exc",(perm,repr(e))); continue
            n+=1
            flat=[i for h in d for i in h]
            real=sorted(i for i in flat if i!=-1)
            if real!=list(range(k)): bad["partition"]+=1; ex.setdefault("partition",(perm,d))
            if k>=2 and (not d[0] or not d[1]): bad["empty"]+=1; ex.setdefault("empty",(perm,d))
            ndel=flat.count(-1)
            want= (2-k if (dele and k<2) else 0)
            if ndel!=want: bad["del"]+=1; ex.setdefault("del",(perm,d))
            strings.add(sol.get_major_diplotype())
            # natural order
            hn=[[sol.get_major_name(i) for i in h] for h in d]
            if natsorted(hn)!=hn: bad["haporder"]+=1; ex.setdefault("haporder",(perm,d,hn))
            # tandem adjacency
            if k>2:
                for ta,tb in g.common_tandems:
                    pass
        if k<=2 and len(strings)>1: bad["order-dep"]+=1; ex.setdefault("order-dep",(ms,strings))
print("n",n,dict(bad)); 
for k,v in ex.items(): print(" ",k,v)
