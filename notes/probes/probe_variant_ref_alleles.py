import warnings; warnings.filterwarnings("ignore")
import logbook; logbook.NullHandler().push_application()
import glob, os, yaml, collections
from aldy.gene import Gene
from aldy.common import script_path, rev_comp
d=os.path.dirname(script_path("aldy.resources.genes/cyp2d6.yml"))
def apply_refseq(seq, pos0, op):
    # pos0: 0-based refseq pos as in DB (orig_pos-1)
    if ">" in op:
        l,r=op.split(">")
        ok=all(a=="." or seq[pos0+i]==a for i,a in enumerate(l))
        new="".join(seq[pos0+i] if b=="." else b for i,b in enumerate(r))
        return seq[:pos0]+new+seq[pos0+len(l):], ok
    if op.startswith("ins"):
        return seq[:pos0]+op[3:]+seq[pos0:], True   # inserted BEFORE pos0? to be determined
    if op.startswith("del"):
        if "ins" in op[3:]:
            dl,ins=op[3:].split("ins")
            return seq[:pos0]+ins+seq[pos0+len(dl):], seq[pos0:pos0+len(dl)]==dl
        dl=op[3:]
        return seq[:pos0]+seq[pos0+len(dl):], seq[pos0:pos0+len(dl)]==dl
stats=collections.Counter()
bad=[]
for f in sorted(glob.glob(d+"/*.yml")):
    n=os.path.basename(f)[:-4]
    for b in ["hg19","hg38"]:
        g=Gene(f,genome=b)
        for (gpos,gop),(fn,rs,rpos,opos,oop) in g.mutations.items():
            kind = "snp" if ">" in gop and len(gop)==3 else "mnp" if ">" in gop else "ins" if gop.startswith("ins") else "delins" if "ins" in gop else "del"
            stats[n,b,kind]+=0
            stats["total",kind]+=1
            # genome-level ref check
            if ">" in gop:
                l,r=gop.split(">")
                ok=all(a=="." or g[gpos+i]==a for i,a in enumerate(l))
            elif gop.startswith("del"):
                dl=gop[3:].split("ins")[0]
                ok=g[gpos:gpos+len(dl)]==dl
            else: ok=True
            _,ok2=apply_refseq(g.seq,opos,oop)
            if not ok or not ok2:
                bad.append((n,b,gpos,gop,opos,oop,ok,ok2, g[gpos:gpos+5], g.seq[opos:opos+5]))
print({k:v for k,v in stats.items() if k[0]=="total"})
print(len(bad))
for x in bad[:40]: print(x)
