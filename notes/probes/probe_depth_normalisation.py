import warnings; warnings.filterwarnings("ignore")
import logbook; logbook.NullHandler().push_application()
import sys, yaml
sys.argv=["x","-"]
exec(open("t19.py").read().split("\ncases=[")[0])
from aldy.sam import Sample
from aldy.profile import Profile
from aldy.cn import estimate_cn
prof=[]
for c in range(2): prof+=copy_reads("GEN*1.001",f"g{c}")+pseudo_reads(f"p{c}")+neutral_reads(f"n{c}")
write_bam("w/prof.bam",prof,w.chrlen)
NR=GRange("7",w.noff-1,w.noff-1+400)
g=Gene("w/gen.yml",genome="hg19")
# profile via BAM
pb=Profile.load(g,"w/prof.bam",NR)
# profile via YAML
regions={(g.name,r,gi):rng for gi,gr in enumerate(g.regions) for r,rng in gr.items()}
d=Profile.get_sam_profile_data("w/prof.bam",regions=regions,genome="hg19",cn_region=NR,params={"phase":"false","gap":"0.1"})
open("w/prof.yml","w").write(yaml.dump(d,default_flow_style=None))
py=Profile.load(g,"w/prof.yml")
print("yaml options:",d.get("options"),"loaded phase",py.phase,"gap",py.gap, py.cn_region)
def regs(path,prof):
    s=Sample(g,prof,path); return {k:v for k,v in s.coverage._region_coverage.items()}, s
for label,pr in [("bam",pb),("yml",py)]:
    r,s=regs("w/prof.bam",pr)
    print(label,"self-profile all 2.0:",all(v==2.0 for k,v in r.items() if pr.data["GEN"][k[1]][k[0]]!=0), sorted(set(r.values())))
# sample with structure, k-times
reads=chrom("normal","GEN*2.001","c0")+chrom("left","GEN*3.001","c1")
for c in range(2): reads+=neutral_reads(f"n{c}")
write_bam("w/s1.bam",reads,w.chrlen)
r1,s1=regs("w/s1.bam",pb)
for k in (2,3,5):
    rk=[(f"{n}x{j}",p_,s_,c_) for j in range(k) for (n,p_,s_,c_) in reads]
    write_bam("w/sk.bam",rk,w.chrlen)
    r2,s2=regs("w/sk.bam",pb)
    print(k,"max rel diff",max(abs(r1[x]-r2[x])/(abs(r1[x])+1e-12) for x in r1), [str(x.solution) for x in estimate_cn(g,pb,s2.coverage,"any")]==[str(x.solution) for x in estimate_cn(g,pb,s1.coverage,"any")])
