import warnings; warnings.filterwarnings("ignore")
import logbook; logbook.NullHandler().push_application()
import sys, itertools, collections, yaml, copy
from sim import *
from aldy.gene import Gene
from aldy.common import rev_comp
w=World(strand="+"); s=w.seq; L=w.L
def regs(strand, base, pbase, cig_shift=0, zero=False):
    d={}
    for n,(a,b) in w.rs_regions.items():
        row=[]
        for bs in (base,pbase):
            if strand=="+": row+=[bs+a, bs+b]
            else: row+=[bs+(L-b), bs+(L-a)]
        d[n]=row
    return d
def db(alleles, s19="+", s38="-", cigar="M600", zero=False):
    # with cigar containing I2 (refseq bases missing in genome) and D3 (extra genome bases): genome length = 600-2+3
    def glen(c): return sum(int(x[1:]) for x in c.split() if x[0] in "MD")
    r19=regs(s19,3001,6001); r38=regs(s38,4201,7301)
    if cigar!="M600":
        # keep it simple: extend 'down' by +1 genome base in both gene & pseudogene columns
        for r in (r19,r38):
            pass
    d={"name":"GEN","version":"t","alleles":alleles,
       "structure":{"genes":["GEN","GENP"],"regions":{"hg19":r19,"hg38":r38},"cn_regions":["e1","i1","e2","i2","e3"],"tandems":[["2","1"]]},
       "reference":{"name":"NG_X","mappings":{"hg19":["7",3001,3001+glen(cigar),s19,cigar],"hg38":["7",4201,4201+glen(cigar),s38,cigar]},
                    "exons":[[101,201],[301,401],[501,551]],"seq":s}}
    return yaml.safe_dump(d)
def snp(p1,alt=None):
    r=s[p1-1]; a=alt or COMP[r]; return [p1,f"{r}>{a}"]
core1=snp(150)+["rs150","functional"]; core2=snp(330)+["rs330","functional"]; sil=snp(230)+["rs230"]
base_alleles={"GEN*1.001":{"mutations":[]},"GEN*1.002":{"mutations":[sil]},"GEN*2.001":{"mutations":[core1]},"GEN*3.001":{"mutations":[core2, sil]}}
suffixes={
 "none":{},
 "deletion":{"GEN*5.001":{"mutations":[["GEN","deletion"]]}},
 "bare_left":{"GEN*6.001":{"mutations":[["GENP","e2-"]]}},
 "left_own_core":{"GEN*7.001":{"mutations":[["GENP","e2-"],core2]}},
 "two_left_same_break":{"GEN*6.001":{"mutations":[["GENP","e2-"]]},"GEN*8.001":{"mutations":[["GENP","e2-"],core2]}},
 "two_bare_left_same_break":{"GEN*6.001":{"mutations":[["GENP","e2-"]]},"GEN*8.001":{"mutations":[["GENP","e2-"]]}},
 "right":{"GEN*9.001":{"mutations":[["GENP","e3+"]]}},
 "right_with_core":{"GEN*9.001":{"mutations":[["GENP","e3+"],core1]}},
 "custom":{"GEN*10.001":{"mutations":[["GEN","deletion:e1,i1"]]}},
 "custom_with_core":{"GEN*10.001":{"mutations":[["GEN","deletion:e1,i1"],core2]}},
 "all":{"GEN*5.001":{"mutations":[["GEN","deletion"]]},"GEN*6.001":{"mutations":[["GENP","e2-"]]},"GEN*7.001":{"mutations":[["GENP","i2-"],core2]},"GEN*9.001":{"mutations":[["GENP","e3+"]]},"GEN*10.001":{"mutations":[["GEN","deletion:e1,i1"]]}},
}
def cat(g):
    return {an:(al.cn_config, g.cn_configs[al.cn_config].kind.name, tuple(sorted(g.get_refseq(m) for m in al.func_muts)), tuple(sorted((mn,tuple(sorted(g.get_refseq(m) for m in mi.neutral_muts))) for mn,mi in al.minors.items()))) for an,al in g.alleles.items()}
for name,extra in suffixes.items():
    al=dict(base_alleles); al.update(extra)
    for s19,s38 in [("+","-"),("-","+")]:
        try:
            y=db(al,s19,s38)
            g19=Gene(None,name="GEN",yml=y,genome="hg19"); g38=Gene(None,name="GEN",yml=y,genome="hg38")
            same=cat(g19)==cat(g38)
            print(name,s19,s38,"ok builds_equal",same, list(g19.alleles), {k:v.vector for k,v in g19.cn_configs.items()} if s19=="+" else "")
            if not same: print("   19",cat(g19)); print("   38",cat(g38))
        except Exception as e:
            import traceback; print(name,s19,s38,"EXC",repr(e)[:300]); traceback.print_exc(limit=3)
# cigar with I/D
try:
    y=db(base_alleles,"+","-",cigar="M200 I2 M198 D3 M200")
except Exception as e: print("cigar",repr(e))
