import warnings; warnings.filterwarnings("ignore")
import logbook; logbook.NullHandler().push_application()
import sys, time, collections, itertools, random
from aldy.gene import Gene, Mutation
from aldy.common import script_path
from aldy.profile import Profile
from aldy.major import estimate_major
from aldy.minor import estimate_minor
from aldy.cn import solve_cn_model
from aldy.solutions import CNSolution
from aldy.coverage import Coverage
G={b:Gene(script_path("aldy.tests.resources/toy.yml"),genome=b) for b in ["hg19","hg38"]}
def vid(g,m): return g.mutations[m][3:5]
byvid={b:{vid(g,m):Mutation(*m) for m in g.mutations} for b,g in G.items()}
random.seed(int(sys.argv[1]) if len(sys.argv)>1 else 0)
vids=sorted(byvid["hg19"])
n=bad=0;t=time.time()
for it in range(200):
    gap=random.choice([0,0.1])
    cnlist=random.choice([["1","1"],["1","1","1"],["1","4"],["1","5"],["1","6"],["4","4","1"]])
    abstract={}
    for v in vids:
        T=random.choice([10,20,30]); k=random.choice([0,0,3,5,8,10,15,20])
        abstract[v]=(k,max(0,T-(0 if v[1].startswith("ins") else k)))
    res={}
    for b,g in G.items():
        p=Profile("t"); p.gap=gap
        tab=collections.defaultdict(dict)
        for v,(k,r) in abstract.items():
            m=byvid[b][v]
            if k: tab[m.pos][m.op]=[(60,60)]*k
            if r: tab[m.pos]["_"]=[(60,60)]*r
        cov=Coverage(g,p,None,{k:dict(v) for k,v in tab.items()},None,{})
        cn=CNSolution(g,0,cnlist)
        ms=estimate_major(g,cov,cn,"any")
        out=[]
        if ms:
            mins=estimate_minor(g,cov,ms,"any")
            for s in mins:
                out.append((round(s.score,2),tuple(sorted((a.minor,tuple(sorted(g.get_refseq(x) for x in a.added)),tuple(sorted(g.get_refseq(x) for x in a.missing))) for a in s.solution))))
        res[b]=(sorted((round(s.score,2),tuple(sorted(a.major for a,c in s.solution.items() for _ in range(c))),tuple(sorted(g.get_refseq(x) for x in s.added))) for s in ms),sorted(out))
    n+=1
    if res["hg19"]!=res["hg38"]:
        bad+=1
        if bad<5: print("DIFF",cnlist,gap,abstract,"\n  hg19",res["hg19"],"\n  hg38",res["hg38"])
print("n",n,"bad",bad,time.time()-t)
