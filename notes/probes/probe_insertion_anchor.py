import warnings; warnings.filterwarnings("ignore")
import logbook; logbook.NullHandler().push_application()
import sys
exec(open("t4.py").read().split("# reference sample")[0])
from aldy.common import AldyException
print("context", seq[410:430], "anchor0=419 base", seq[419])
def hap_reads(name, ins_after0):  # insertion after 0-based refseq index ins_after0
    gp=3000+ins_after0  # genome 0-based of anchor
    INS="GATTACA"
    out=[]
    rl=100; depth=20; step=rl/depth
    x=2800.0; k=0
    while int(x)+rl<=3800:
        st=int(x); en=st+rl
        if st<=gp and gp+1<en:  # insertion strictly inside
            left=G[st:gp+1]; right=G[gp+1:en]
            s=left+INS+right
            cig=f"{len(left)}M{len(INS)}I{len(right)}M"
            out.append((f"{name}{k}",st,s,cig))
        else:
            out.append((f"{name}{k}",st,G[st:en]))
        x+=step;k+=1
    return out
neutral=[]; pseudo=[]
for c in range(2):
    neutral+=reads_from(G[6900:7500],6900,None,20,name=f"n{c}_")
    pseudo+=reads_from(G[4800:5800],4800,None,20,name=f"p{c}_")
ref=reads_from(G[2800:3800],2800,None,20,name="g0_")
for label,a in [("after419",419),("after418",418)]:
    write_bam(label+".bam", neutral+pseudo+ref+hap_reads("h",a))
    res=genotype("gen.yml",label+".bam","prof.bam",output_file=None,cn_region=GRange("7",7000,7400),genome="hg19")
    for k,v in res.items():
        for s in v: print(label,"->",s.get_major_diplotype(), s.get_minor_diplotype(), s.score)
    from aldy.sam import Sample
    from aldy.profile import Profile
    g=Gene("gen.yml",genome="hg19")
    p=Profile.load(g,"prof.bam",GRange("7",7000,7400))
    sm=Sample(g,p,label+".bam")
    print("  indels:",sm.coverage._indels, "phase sample:", [v for v in sm.phases.values() if any('ins' in x for x in v.values())][:1])
