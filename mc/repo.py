"""Binds the harness to the aldy working tree under $VERIF_REPO (default /repo).

aldy is imported lazily (in every worker) from the working tree itself, never from a copy,
so every check sees the current sources.
"""
import os
import sys
import warnings

REPO = os.environ.get("VERIF_REPO", "/repo")
_ready = False


def setup():
    global _ready
    if _ready:
        return
    warnings.filterwarnings("ignore")
    if REPO not in sys.path:
        sys.path.insert(0, REPO)
    import logbook

    logbook.NullHandler().push_application()
    import aldy  # noqa

    src = os.path.dirname(os.path.abspath(aldy.__file__))
    want = os.path.join(os.path.abspath(REPO), "aldy")
    if os.path.realpath(src) != os.path.realpath(want):
        raise RuntimeError(f"aldy imported from {src}, expected {want}")
    _ready = True


def reset_debug_store():
    """aldy keeps a process-wide debug store that grows with every stage call."""
    import aldy.common

    aldy.common.json.clear()


def toy_path():
    from aldy.common import script_path

    return script_path("aldy.tests.resources/toy.yml")


def shipped_gene_names():
    d = os.path.join(REPO, "aldy", "resources", "genes")
    return sorted(f[:-4] for f in os.listdir(d) if f.endswith(".yml"))


def shipped_gene_path(name):
    return os.path.join(REPO, "aldy", "resources", "genes", name.lower() + ".yml")
