"""Gene databases ("worlds"): generated ones (two builds, either strand, optional pseudogene,
optional RefSeq<->genome indels) and access to the shipped ones.  Plain data in, aldy Gene out.

Layout of a generated world (RefSeq coordinates, 0-based half-open):
    up 0-100 | e1 100-200 | i1 200-300 | e2 300-400 | i2 400-500 | e3 500-550 | down 550-600
Private chromosome "7" (12 kb).  Builds differ in strand and offsets.
"""
import collections
import functools
import os
import tempfile

import yaml

COMP = {"A": "C", "C": "G", "G": "T", "T": "A"}     # "another base" (not complement)
ALT2 = {"A": "G", "C": "T", "G": "A", "T": "C"}     # a second, different substitution
RC = {"A": "T", "T": "A", "C": "G", "G": "C", "N": "N"}
L = 600
RS_REGIONS = collections.OrderedDict(
    [("up", (0, 100)), ("e1", (100, 200)), ("e2", (300, 400)), ("e3", (500, 550)), ("down", (550, 600))]
)
ALL_REGIONS = collections.OrderedDict(
    [("up", (0, 100)), ("e1", (100, 200)), ("i1", (200, 300)), ("e2", (300, 400)), ("i2", (400, 500)),
     ("e3", (500, 550)), ("down", (550, 600))]
)
CN_REGIONS = ["e1", "i1", "e2", "i2", "e3"]
CHRLEN = 12000
OFFS = {"hg19": (3001, 6001, 9001), "hg38": (3201, 6151, 9101)}   # 1-based starts: gene, pseudogene, neutral
NEUTRAL_LEN = 400
REFSEQ_ONLY = (260, 262)     # RefSeq bases absent from the genome (alignment "I"), inside i1
GENOME_ONLY_AFTER = 459      # 3 genome-only bases follow this RefSeq base (alignment "D"), inside i2
GENOME_ONLY = "GTC"


def rev_comp(s):
    return "".join(RC[c] for c in reversed(s))


def lcg_seq(seed, n):
    """Hand-written LCG: the same sequence in every process and python version."""
    x = (seed * 2654435761 + 12345) & 0xFFFFFFFF
    out = []
    for _ in range(n):
        x = (1103515245 * x + 12345) & 0x7FFFFFFF
        out.append("ACGT"[(x >> 16) & 3])
    return "".join(out)


def make_refseq(seqid):
    s = list(lcg_seq(101 + seqid, L))
    for i in range(120, 128):
        s[i] = "A"                       # homopolymer in e1
    s[119] = "C"
    s[128] = "G"
    for i, c in zip(range(350, 358), "CACACACA"):
        s[i] = c                          # CA repeat in e2
    s[349] = "T"
    s[358] = "G"
    # break accidental repeats next to the planted indel sites of T_RICH
    return "".join(s)


WorldSpec = collections.namedtuple("WorldSpec", "strands pseudo indelmap seqid table layout", defaults=("std",))
# strands: (hg19 strand, hg38 strand) each "+" or "-"; table: name of an allele table or a tuple-encoded table;
# layout: "std" = gene before its pseudogene on the genome, "pfirst" = the two loci swapped (pseudogene upstream)


class World:
    def __init__(self, spec):
        self.spec = spec
        self.seq = make_refseq(spec.seqid)
        p = list(self.seq)
        for i in range(5, L, 23):
            p[i] = COMP[p[i]]
        self.pseq = "".join(p)
        self.strand = {"hg19": spec.strands[0], "hg38": spec.strands[1]}
        self.alleles = allele_table(spec.table, self.seq, spec.pseudo)
        self.tandems = [["13", "1"]] if spec.table in ("rich", "richd", "edge") and spec.pseudo else []

    # -------------------------------------------------------------- coordinates
    def offs(self, build):
        """1-based starts (gene, pseudogene, neutral region) on this build."""
        g, p, n = OFFS[build]
        return (p, g, n) if getattr(self.spec, "layout", "std") == "pfirst" else (g, p, n)

    def glen(self):
        return L - (REFSEQ_ONLY[1] - REFSEQ_ONLY[0]) + len(GENOME_ONLY) if self.spec.indelmap else L

    def col(self, r):
        """Column of RefSeq base r in the + oriented genome copy (None if RefSeq-only)."""
        if not self.spec.indelmap:
            return r
        if REFSEQ_ONLY[0] <= r < REFSEQ_ONLY[1]:
            return None
        c = r - (REFSEQ_ONLY[1] - REFSEQ_ONLY[0] if r >= REFSEQ_ONLY[1] else 0)
        if r > GENOME_ONLY_AFTER:
            c += len(GENOME_ONLY)
        return c

    def gpos(self, build, r, copy=0):
        """0-based genome position of RefSeq base r in the gene (copy 0) or pseudogene (copy 1)."""
        c = self.col(r)
        if c is None:
            return None
        base0 = self.offs(build)[copy] - 1
        return base0 + c if self.strand[build] == "+" else base0 + (self.glen() - 1 - c)

    def plus_copy(self, seq):
        """Genome-side sequence of a gene copy in RefSeq orientation."""
        if not self.spec.indelmap:
            return seq
        out = []
        for r, c in enumerate(seq):
            if REFSEQ_ONLY[0] <= r < REFSEQ_ONLY[1]:
                continue
            out.append(c)
            if r == GENOME_ONLY_AFTER:
                out.append(GENOME_ONLY)
        return "".join(out)

    def cigar(self, build):
        if not self.spec.indelmap:
            return f"M{L}"
        ops = [("M", REFSEQ_ONLY[0]), ("I", REFSEQ_ONLY[1] - REFSEQ_ONLY[0]),
               ("M", GENOME_ONLY_AFTER + 1 - REFSEQ_ONLY[1]), ("D", len(GENOME_ONLY)),
               ("M", L - GENOME_ONLY_AFTER - 1)]
        if self.strand[build] == "-":
            ops = ops[::-1]
        return " ".join(f"{o}{n}" for o, n in ops)

    def region_range(self, build, name, copy=0):
        """0-based half-open genome range of a region."""
        s, e = ALL_REGIONS[name]
        a, b = self.gpos(build, s, copy), self.gpos(build, e - 1, copy)
        # region borders are always mapped bases
        return (min(a, b), max(a, b) + 1)

    def regions_yaml(self, build):
        d = {}
        for n in RS_REGIONS:
            row = []
            for copy in [0] + ([1] if self.spec.pseudo else []):
                a, b = self.region_range(build, n, copy)
                row += [a + 1, b + 1]
            d[n] = row
        return d

    def neutral(self, build):
        from aldy.common import GRange

        s = OFFS[build][2] - 1
        return GRange("7", s, s + NEUTRAL_LEN)

    def yaml_text(self):
        db = {
            "name": "GEN", "version": "verif", "alleles": dict(self.alleles),
            "structure": {
                "genes": ["GEN"] + (["GENP"] if self.spec.pseudo else []),
                "regions": {b: self.regions_yaml(b) for b in ("hg19", "hg38")},
                "cn_regions": list(CN_REGIONS),
            },
            "reference": {
                "name": "NG_VERIF",
                "mappings": {b: ["7", self.offs(b)[0], self.offs(b)[0] + self.glen(), self.strand[b], self.cigar(b)]
                             for b in ("hg19", "hg38")},
                "exons": [[101, 201], [301, 401], [501, 551]],
                "seq": self.seq,
            },
        }
        if self.tandems:
            db["structure"]["tandems"] = self.tandems
        return yaml.safe_dump(db, sort_keys=False)

    def gene(self, build):
        from aldy.gene import Gene

        return Gene(None, name="GEN", yml=self.yaml_text(), genome=build)

    def yaml_file(self, directory):
        import hashlib
        tag = hashlib.sha1(repr(self.spec).encode()).hexdigest()[:10]
        path = os.path.join(directory, f"gen_{tag}.yml")
        if not os.path.exists(path):
            with open(path, "w") as f:
                f.write(self.yaml_text())
        return path

    # -------------------------------------------------------------- genome
    def genome(self, build):
        G = ["N"] * CHRLEN

        def put(start1, s):
            for i, c in enumerate(s):
                G[start1 - 1 + i] = c

        goff, poff, noff = self.offs(build)
        gs, ps = self.plus_copy(self.seq), self.plus_copy(self.pseq)
        if self.strand[build] == "-":
            gs, ps = rev_comp(gs), rev_comp(ps)
        fl, fr = lcg_seq(7, 400), lcg_seq(8, 400)
        put(goff - 400, fl)
        put(goff, gs)
        put(goff + len(gs), fr)
        if self.spec.pseudo:
            put(poff - 250, lcg_seq(9, 250))
            put(poff, ps)
            put(poff + len(ps), lcg_seq(10, 250))
        put(noff - 300, lcg_seq(11, 300))
        put(noff, lcg_seq(12, NEUTRAL_LEN))
        put(noff + NEUTRAL_LEN, lcg_seq(13, 300))
        return "".join(G)


# ------------------------------------------------------------------ allele tables
def snv(seq, pos1, alt=None, *info):
    r = seq[pos1 - 1]
    return [pos1, f"{r}>{alt or COMP[r]}", *info]


def allele_table(table, seq, pseudo):
    if isinstance(table, tuple):          # tuple-encoded explicit table ((name, ((pos, op, rs, fn), ...), label), ...)
        d = collections.OrderedDict()
        for name, muts, label in table:
            e = {"mutations": [list(m) if not isinstance(m, list) else m for m in muts]}
            e["mutations"] = [[x for x in m if x is not None] for m in e["mutations"]]
            if label:
                e["label"] = label
            d[f"GEN*{name}"] = e
        return d
    s = seq
    if table == "small":
        return collections.OrderedDict([
            ("GEN*1.001", {"mutations": []}),
            ("GEN*1.002", {"mutations": [snv(s, 231, None, "rs231")]}),
            ("GEN*2.001", {"mutations": [snv(s, 150, None, "rs150", "functional")]}),
            ("GEN*2.002", {"mutations": [snv(s, 150, None, "rs150", "functional"), snv(s, 331, None, "rs331")]}),
            ("GEN*3.001", {"mutations": [snv(s, 170, None, "rs170", "functional"), snv(s, 231, None, "rs231")]}),
        ])
    assert table in ("rich", "richd", "edge"), table
    mnv = f"{s[309:311]}>{COMP[s[309]] + COMP[s[310]]}"
    d = collections.OrderedDict([
        ("GEN*1.001", {"mutations": []}),
        ("GEN*1.002", {"mutations": [snv(s, 231, None, "rs231")]}),
        ("GEN*2.001", {"mutations": [snv(s, 150, None, "rs150", "functional")]}),
        ("GEN*2.002", {"mutations": [snv(s, 150, None, "rs150", "functional"), snv(s, 331, None, "rs331")]}),
        ("GEN*3.001", {"mutations": [snv(s, 150, ALT2[s[149]], "rs150b", "functional")]}),
        ("GEN*4.001", {"mutations": [[150, "insGAT", "rs150i", "frameshift"]]}),
        ("GEN*5.001", {"mutations": [[310, mnv, "rs310", "functional"]]}),
        ("GEN*6.001", {"mutations": [[380, f"del{s[379:382]}", "rs380", "frameshift"], snv(s, 231, None, "rs231")]}),
        ("GEN*7.001", {"mutations": [[124, "delA", "rs124", "frameshift"]]}),
        ("GEN*8.001", {"mutations": [[520, "insGATTACA", "rs520", "frameshift"]]}),
        ("GEN*9.001", {"mutations": [[354, "insCA", "rs354", "frameshift"]]}),
        ("GEN*10.001", {"mutations": [snv(s, 170, None, "rs170", "functional"), snv(s, 431, None, "rs431")]}),
        ("GEN*10.002", {"mutations": [snv(s, 170, None, "rs170", "functional"), snv(s, 231, None, "rs231")]}),
        ("GEN*11.001", {"mutations": [["GEN", "deletion"]]}),
    ])
    if pseudo:
        d["GEN*12.001"] = {"mutations": [["GENP", "e2-"]]}
        d["GEN*13.001"] = {"mutations": [["GENP", "i2-"], snv(s, 530, None, "rs530", "functional")]}
        d["GEN*14.001"] = {"mutations": [["GENP", "e3+"]]}
    d["GEN*15.001"] = {"mutations": [["GEN", "deletion:e3,down"], snv(s, 180, None, "rs180", "functional")]}
    # variants on the very first and the very last base of the RefSeq (boundary of the mapped part)
    d["GEN*1.003"] = {"mutations": [snv(s, 1, None, "rs1")]}
    d["GEN*18.001"] = {"mutations": [snv(s, 600, None, "rs600", "functional")]}
    if table in ("richd", "edge"):      # plus a deletion-insertion (as CYP2A6*27 has)
        d["GEN*16.001"] = {"mutations": [[390, f"del{s[389:391]}ins{COMP[s[389]]}", "rs390", "frameshift"]]}
        # the first base change of the MNV of *5 also exists as a substitution of its own (as CYP2D6 rs1058164 does)
        d["GEN*17.001"] = {"mutations": [[310, f"{s[309]}>{COMP[s[309]]}", "rs310a", "functional"]]}
    if table == "edge":       # indels touching the first / last base of the mapped part (either strand's first genome base)
        d["GEN*19.001"] = {"mutations": [[1, "insTT", "rs1i", "frameshift"]]}
        d["GEN*20.001"] = {"mutations": [[2, f"del{s[1:3]}", "rs2d", "frameshift"]]}
        d["GEN*21.001"] = {"mutations": [[599, "insGG", "rs599i", "frameshift"]]}
        d["GEN*22.001"] = {"mutations": [[598, f"del{s[597:599]}", "rs598d", "frameshift"]]}
        d["GEN*23.001"] = {"mutations": [[1, f"{s[0:2]}>{COMP[s[0]] + COMP[s[1]]}", "rs1m", "functional"]]}
    return d


def rich_specs():
    out = []
    for strands in (("+", "-"), ("-", "+"), ("+", "+"), ("-", "-")):
        for pseudo in (True, False):
            for indelmap in (False, True):
                for seqid in (0, 1, 2):
                    out.append(WorldSpec(strands, pseudo, indelmap, seqid, "rich"))
    return out


@functools.lru_cache(maxsize=64)
def world(spec):
    return World(spec)


@functools.lru_cache(maxsize=128)
def gene_of(spec, build):
    """aldy Gene of a generated world; spec may also be ("shipped", name) or ("toy",)."""
    from aldy.gene import Gene
    from . import repo

    if spec[0] == "toy":
        return Gene(repo.toy_path(), genome=build)
    if spec[0] == "shipped":
        return Gene(repo.shipped_gene_path(spec[1]), genome=build)
    return world(spec).gene(build)


_TMP = None


def tmpdir():
    """Per-process scratch directory, removed at exit."""
    global _TMP
    if _TMP is None or not os.path.isdir(_TMP.name) or getattr(_TMP, "_pid", None) != os.getpid():
        # all scratch space of one run lives under the run's root (created and removed by the explorer)
        _TMP = tempfile.TemporaryDirectory(prefix="verif-aldy-", dir=os.environ.get("VERIF_TMPROOT") or None)
        _TMP._pid = os.getpid()
    return _TMP.name
