"""Read simulator ("perfect aligner") for generated worlds.

A sample is a list of chromosome components; each is turned into a genome-ordered event
list (M: aligned base, I: inserted base, D: deleted genome base), tiled with error-free
reads at uniform depth and written with the true alignment (CIGAR over M/I/D, soft clips
at fusion junctions).  Variants are applied as written in the database (RefSeq notation;
`insX` at p is inserted after RefSeq base p).
"""
import os

import pysam

from . import worlds
from .worlds import RC, OFFS, ALL_REGIONS, NEUTRAL_LEN, CHRLEN

FLANK = 300


def db_variants(world, minor_name):
    """Variants (pos1, op) of a database allele as written in the YAML."""
    out = []
    for m in world.alleles[f"GEN*{minor_name}"]["mutations"]:
        if isinstance(m[0], int):
            out.append((m[0], m[1]))
    return out


def copy_columns(world, variants, pseudo=False, shift=0):
    """Columns of one gene copy in RefSeq orientation: column c -> list of (op, c|None, base)."""
    base = world.plus_copy(world.pseq if pseudo else world.seq)
    cols = [[("M", c, b)] for c, b in enumerate(base)]
    order = sorted(variants, key=lambda v: (v[1].startswith("ins"), v))
    for pos1, op in order:
        c = world.col(pos1 - 1)
        assert c is not None, (pos1, op)
        if shift:
            c, op = shift_indel(base, c, op, shift)
        if ">" in op:
            l, r = op.split(">")
            for k in range(len(l)):
                if l[k] != ".":
                    assert base[c + k] == l[k], (pos1, op, base[c + k])
                    cols[c + k] = [("M", c + k, r[k])]
        elif op.startswith("ins"):
            cols[c] = cols[c] + [("I", None, b) for b in op[3:]]
        elif op.startswith("del"):
            body = op[3:]
            ins = ""
            if "ins" in body:
                body, ins = body.split("ins")
            assert base[c:c + len(body)] == body, (pos1, op, base[c:c + len(body)])
            for k in range(len(body)):
                cols[c + k] = [("D", c + k, None)]
            if ins:
                cols[c + len(body) - 1] = cols[c + len(body) - 1] + [("I", None, b) for b in ins]
        else:
            raise ValueError(op)
    return cols


def shift_indel(base, c, op, direction):
    """Aligner normalisation of one pure indel (RefSeq orientation, column coordinates):
    returns the equivalent (c, op) moved as far as possible to the left (-1) / right (+1)."""
    n = len(base)
    if op.startswith("del") and "ins" not in op[3:]:
        k = len(op) - 3
        if direction < 0:
            while c > 0 and base[c - 1] == base[c + k - 1]:
                c -= 1
        else:
            while c + k < n and base[c] == base[c + k]:
                c += 1
        return c, "del" + base[c:c + k]
    if op.startswith("ins"):
        S = op[3:]
        if direction < 0:
            while c > 0 and base[c] == S[-1]:      # stays inside the simulated copy (column 0 is its first base)
                S = S[-1] + S[:-1]
                c -= 1
        else:
            while c + 1 < n and base[c + 1] == S[0]:
                S = S[1:] + S[0]
                c += 1
        return c, "ins" + S
    return c, op


def haplotype_seq(cols):
    return "".join(it[2] for col in cols for it in col if it[0] != "D")


def to_events(world, build, cols, copy, lo=0, hi=None):
    """Genome-ordered events of the columns lo..hi (RefSeq orientation) of a copy placed at the
    gene (copy 0) or pseudogene (copy 1) locus."""
    plus = world.strand[build] == "+"
    base0 = world.offs(build)[copy] - 1
    glen = world.glen()
    hi = glen if hi is None else hi
    sel = cols[lo:hi]
    ev = []
    for col in (sel if plus else reversed(sel)):
        for op, c, b in (col if plus else reversed(col)):
            gp = None if c is None else (base0 + c if plus else base0 + glen - 1 - c)
            ev.append((op, gp, b if (plus or b is None) else RC[b]))
    return ev


def plain_events(G, s0, e0):
    return [("M", i, G[i]) for i in range(s0, e0)]


def locus_bounds(world, build, copy):
    base0 = world.offs(build)[copy] - 1
    return base0, base0 + world.glen()


def flank_events(world, build, G, copy, side, n=None):
    s, e = locus_bounds(world, build, copy)
    n = n or (FLANK if copy == 0 else 250)
    return plain_events(G, s - n, s) if side == "pre" else plain_events(G, e, e + n)


def _mk_read(seg, lead, trail, name):
    while seg and seg[0][0] != "M":
        seg = seg[1:]
    while seg and seg[-1][0] != "M":
        seg = seg[:-1]
    if not seg:
        return None
    cig, seqs = [], []
    for op, gp, b in seg:
        if cig and cig[-1][0] == op:
            cig[-1][1] += 1
        else:
            cig.append([op, 1])
        if op != "D":
            seqs.append(b)
    c = "".join(f"{n}{o}" for o, n in cig)
    cigar = (f"{len(lead)}S" if lead else "") + c + (f"{len(trail)}S" if trail else "")
    return (name, seg[0][1], lead + "".join(seqs) + trail, cigar)


def tile(events, rl, depth, name, junction=None, min_piece=20):
    """Tile reads of rl query bases at `depth` over an event list.  `junction` = index into
    events where a second locus starts (fusion): reads crossing it are emitted as two
    soft-clipped pieces."""
    q_idx = [i for i, e in enumerate(events) if e[0] in "MI"]
    n = len(q_idx)
    J = None
    if junction is not None:
        J = len([e for e in events[:junction] if e[0] in "MI"])
    step = rl / depth
    out = []
    k = 0
    while True:
        x = int(k * step + 1e-9)
        if x + rl > n:
            break
        a, b = q_idx[x], q_idx[x + rl - 1]
        seg = events[a:b + 1]
        if J is None or x + rl <= J or x >= J:
            r = _mk_read(seg, "", "", f"{name}_{k}")
            if r:
                out.append(r)
        else:
            cut = q_idx[J] - a
            s1, s2 = seg[:cut], seg[cut:]
            q1 = "".join(e[2] for e in s1 if e[0] != "D")
            q2 = "".join(e[2] for e in s2 if e[0] != "D")
            if len(q1) >= min_piece:
                r = _mk_read(s1, "", q2, f"{name}_{k}a")
                if r:
                    out.append(r)
            if len(q2) >= min_piece:
                r = _mk_read(s2, q1, "", f"{name}_{k}b")
                if r:
                    out.append(r)
        k += 1
    return out


class Simulator:
    def __init__(self, world, build):
        self.w = world
        self.build = build
        self.G = world.genome(build)

    # ---- components -------------------------------------------------------------
    def gene_copy(self, variants, rl, depth, name, shift=0):
        cols = copy_columns(self.w, variants, shift=shift)
        ev = flank_events(self.w, self.build, self.G, 0, "pre") + \
            to_events(self.w, self.build, cols, 0) + flank_events(self.w, self.build, self.G, 0, "post")
        return tile(ev, rl, depth, name)

    def pseudo_copy(self, rl, depth, name):
        if not self.w.spec.pseudo:
            return []
        cols = copy_columns(self.w, [], pseudo=True)
        ev = flank_events(self.w, self.build, self.G, 1, "pre") + \
            to_events(self.w, self.build, cols, 1) + flank_events(self.w, self.build, self.G, 1, "post")
        return tile(ev, rl, depth, name)

    def neutral(self, rl, depth, name):
        s = OFFS[self.build][2] - 1
        return tile(plain_events(self.G, s - 300, s + NEUTRAL_LEN + 300), rl, depth, name)

    def hybrid(self, variants, brk_region, kind, rl, depth, name):
        """kind 'left': pseudogene 5' part (RefSeq < start of brk_region) + gene from brk_region on;
        'right': gene 5' part + pseudogene from brk_region on."""
        w, b = self.w, self.build
        brk = w.col(ALL_REGIONS[brk_region][0])
        gcols = copy_columns(w, variants)
        pcols = copy_columns(w, [], pseudo=True)
        five_src, three_src = (1, 0) if kind == "left" else (0, 1)

        def ev_of(src, lo, hi):
            return to_events(w, b, gcols if src == 0 else pcols, src, lo, hi)

        five, three = ev_of(five_src, 0, brk), ev_of(three_src, brk, w.glen())
        if w.strand[b] == "+":
            segA = flank_events(w, b, self.G, five_src, "pre") + five
            segB = three + flank_events(w, b, self.G, three_src, "post")
        else:
            segA = flank_events(w, b, self.G, three_src, "pre") + three
            segB = five + flank_events(w, b, self.G, five_src, "post")
        return tile(segA + segB, rl, depth, name, junction=len(segA))

    def partial_copy(self, variants, deleted_regions, rl, depth, name):
        """Gene copy lacking some regions (custom deletion); the deleted part is cut out and the
        rest tiled piecewise (reads do not bridge the cut)."""
        w, b = self.w, self.build
        cols = copy_columns(w, variants)
        keep = [c for c in range(w.glen())
                if not any(w.col(ALL_REGIONS[r][0]) <= c <= w.col(ALL_REGIONS[r][1] - 1) for r in deleted_regions)]
        # contiguous runs
        runs, s = [], None
        for c in range(w.glen() + 1):
            if c in set(keep):
                s = c if s is None else s
            elif s is not None:
                runs.append((s, c))
                s = None
        reads = []
        for i, (lo, hi) in enumerate(runs):
            ev = to_events(w, b, cols, 0, lo, hi)
            pre = lo == 0
            post = hi == w.glen()
            plus = w.strand[b] == "+"
            left_flank = (pre if plus else post)
            right_flank = (post if plus else pre)
            if left_flank:
                ev = flank_events(w, b, self.G, 0, "pre") + ev
            if right_flank:
                ev = ev + flank_events(w, b, self.G, 0, "post")
            reads += tile(ev, rl, depth, f"{name}p{i}")
        return reads

    # ---- samples ----------------------------------------------------------------
    def component(self, comp, rl, depth, tag):
        """comp = (kind, minor allele name | None)
           kinds: normal (gene copy + pseudogene copy), extra (gene copy only), del (pseudogene only),
                  left:<brk> / right:<brk> (hybrids), custom:<r1,r2> (partial gene copy + pseudogene)."""
        kind, allele = comp
        if kind in ("vars", "xvars"):          # explicit variant list [(pos1, op), ...] instead of an allele name
            reads = self.gene_copy(list(allele), rl, depth, tag + "g")
            return reads + (self.pseudo_copy(rl, depth, tag + "p") if kind == "vars" else [])
        var = db_variants(self.w, allele) if allele else []
        if kind == "normal":
            return self.gene_copy(var, rl, depth, tag + "g") + self.pseudo_copy(rl, depth, tag + "p")
        if kind == "extra":
            return self.gene_copy(var, rl, depth, tag + "x")
        if kind == "del":
            return self.pseudo_copy(rl, depth, tag + "p")
        if kind.startswith("left:"):
            return self.hybrid(var, kind[5:], "left", rl, depth, tag + "h")
        if kind.startswith("right:"):
            return self.hybrid(var, kind[6:], "right", rl, depth, tag + "h") + self.pseudo_copy(rl, depth, tag + "p")
        if kind.startswith("custom:"):
            return self.partial_copy(var, kind[7:].split(","), rl, depth, tag + "c") + self.pseudo_copy(rl, depth, tag + "p")
        raise ValueError(kind)

    def sample_reads(self, components, rl=100, depth=20, neutral_copies=2):
        reads = []
        for i, comp in enumerate(components):
            reads += self.component(comp, rl, depth, f"c{i}")
        for c in range(neutral_copies):
            reads += self.neutral(rl, depth, f"n{c}")
        return reads

    def profile_reads(self, rl=100, depth=20):
        return self.sample_reads([("normal", "1.001"), ("normal", "1.001")], rl, depth)


def pair_up(reads, span):
    """Gives reads of one component that start within `span` bases of each other a common
    fragment name (mate pairs): read k is paired with the first later read starting >= span/2 away."""
    out = []
    by = sorted(reads, key=lambda r: r[1])
    used = set()
    for i, r in enumerate(by):
        if i in used:
            continue
        mate = None
        for j in range(i + 1, len(by)):
            if j not in used and by[j][0].rsplit("_", 1)[0] == r[0].rsplit("_", 1)[0] and span / 2 <= by[j][1] - r[1] <= span:
                mate = j
                break
        out.append(r)
        if mate is not None:
            used.add(mate)
            out.append((r[0],) + tuple(by[mate][1:]))
    return out


def write_bam(path, reads, chrom="7", chrlen=CHRLEN, mapq=60, qual="I", sam=False, flags=None, header_extra=None):
    hdr = {"HD": {"VN": "1.0", "SO": "coordinate"}, "SQ": [{"SN": chrom, "LN": chrlen}]}
    reads = sorted(reads, key=lambda r: (r[1], r[0]))
    with pysam.AlignmentFile(path, "w" if sam else "wb", header=hdr) as f:
        for n, pos, s, cg in reads:
            a = pysam.AlignedSegment()
            a.query_name = n
            a.query_sequence = s
            a.flag = 0
            a.reference_id = 0
            a.reference_start = pos
            a.mapping_quality = mapq
            a.cigarstring = cg
            a.query_qualities = pysam.qualitystring_to_array(qual * len(s))
            f.write(a)
    if not sam:
        pysam.index(path)
    return path


def structure_of(world, components):
    """The configuration multiset a component list plants (names of the world's cn configs)."""
    names = []
    for kind, allele in components:
        if kind in ("normal", "extra"):
            names.append("1")
        elif kind == "del":
            names.append("DEL")
        else:
            names.append(kind)
    return names


class GeneSimulator:
    """Perfect-aligner simulator for ANY loaded Gene (shipped databases at their real coordinates).
    Variants are applied in genome terms (the catalogue's own keys): substitutions replace bases, a
    deletion removes the keyed bases, an insertion follows the keyed base.  The chromosome is cut
    shortly behind the gene so that the temporary N-padded reference stays small."""

    FL = 400

    def __init__(self, gene):
        self.gene = gene
        lo, hi = gene._lookup_range
        wide = gene.get_wide_region()
        self.lo, self.hi = min(lo, wide.start), max(hi, wide.end)
        self.n0 = self.hi + 2000
        self.chrlen = self.n0 + NEUTRAL_LEN + 1000
        fill = worlds.lcg_seq(17, 4000)
        self.fill = fill

    def base(self, pos):
        b = self.gene[pos]
        return b if b != "N" else self.fill[pos % len(self.fill)]

    def neutral_region(self):
        from aldy.common import GRange
        return GRange(self.gene.chr, self.n0, self.n0 + NEUTRAL_LEN)

    def copy_events(self, variants):
        s, e = self.lo - self.FL, self.hi + self.FL
        cols = {p: [("M", p, self.base(p))] for p in range(s, e)}
        for pos, op in sorted(variants, key=lambda v: (v[1].startswith("ins"), v)):
            if ">" in op:
                l, r = op.split(">")
                for k in range(len(l)):
                    if l[k] != ".":
                        cols[pos + k] = [("M", pos + k, r[k])]
            elif op.startswith("ins"):
                cols[pos] = cols[pos] + [("I", None, b) for b in op[3:]]
            else:
                body = op[3:]
                ins = ""
                if "ins" in body:
                    body, ins = body.split("ins")
                for k in range(len(body)):
                    cols[pos + k] = [("D", pos + k, None)]
                if ins:
                    cols[pos + len(body) - 1] = cols[pos + len(body) - 1] + [("I", None, b) for b in ins]
        return [it for p in range(s, e) for it in cols[p]]

    def gene_copy(self, variants, rl, depth, name):
        return tile(self.copy_events(variants), rl, depth, name)

    def neutral(self, rl, depth, name):
        ev = [("M", p, self.fill[p % len(self.fill)]) for p in range(self.n0 - 300, self.n0 + NEUTRAL_LEN + 300)]
        return tile(ev, rl, depth, name)

    def sample(self, copies, rl=100, depth=20):
        reads = []
        for i, var in enumerate(copies):
            reads += self.gene_copy(var, rl, depth, f"c{i}")
        for c in range(2):
            reads += self.neutral(rl, depth, f"n{c}")
        return reads

    def write(self, path, reads):
        return write_bam(path, reads, chrom=self.gene.chr, chrlen=self.chrlen)
