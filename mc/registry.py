"""Registry of the checks: which properties are claimed, with which level text.
`python -m mc.registry` rewrites MANIFEST.json from it."""
import json
import os

ROOT = os.path.dirname(os.path.dirname(os.path.abspath(__file__)))

TITLES = {}
with open(os.path.join(ROOT, "properties.jsonl")) as f:
    for line in f:
        p = json.loads(line)
        TITLES[p["id"]] = p["title"]

# id -> (technique, level text, level note, design ref)
CLAIMED = {
    "C05": (
        "bounded exhaustive enumeration of ILP models (BFS over model features) executed on lpinterface+CBC, judged against 2^n closed-form enumeration",
        "Every model of aldy's shape up to the stated feature bound (2-4 binaries quick, up to 6 thorough; 1-3 error rows; cardinality, ordering chain, penalties, gap, limit, bounded errors) is built through the real solver interface and its complete yield list is compared with an enumeration of all binary assignments; all products of 1-4 factors, all sign patterns of 1-4 absolute terms and all pairs of colliding names are enumerated. Exhaustive below the bound, nothing above it.",
        "Trusted: the 60-line closed-form evaluator in mc/ref/ilp_ref.py; CBC is the unit under test together with lpinterface. Tolerance 1e-4 with a don't-care band at the gap boundary.",
        "DESIGN.md §4 C05",
    ),
}

CLAIMED["C02"] = (
    "bounded exhaustive enumeration of evidence tables (planted allele multisets x 0-2 count deviations) executed on estimate_major, judged against enumeration of all allele multisets",
    "Every noise-free table planted from every admissible multiset of catalogued majors for every structure of 1-3 (toy: 4) copies, and every table reachable by 1 (thorough: 2) count deviations, over the toy gene and generated databases (and all pairs for six shipped genes, thorough), is solved by aldy and compared with a reference that enumerates every admissible allele multiset and evaluates the documented objective: configuration counts, carried-xor-novel, score, optimality, completeness within the gap, no duplicates, planted combination at error 0.",
    "Trusted: mc/ref/major_ref.py (filters re-derived from the documentation, closed-form objective) and mc/tables.py. Tables, not alignments (C06/C01 cover the path from reads). States with a count exactly on a filter threshold are skipped and counted.",
    "DESIGN.md §4 C02",
)
CLAIMED["C03"] = (
    "bounded exhaustive enumeration of region-depth vectors (planted structures x 0-2 additive deviations, fusion-support assignments, user lists) executed on solve_cn_model/estimate_cn, judged against enumeration of all internal structure assignments",
    "Every depth vector of every planted structure (two complete configurations, 0-3 extra copies, 0-1 extra pseudogene copies, including vectors no admissible structure explains exactly) with 0-1 (thorough 0-2) cell deviations, max copy number 3-6, gap {0,0.1,0.3}, every assignment of long-read support values to the fusions, every user list of length <=3 over the configuration names plus an unknown one, and all shipped genes in the no-copy-number mode, is solved by aldy and compared with a complete enumeration of internal assignments (well-formedness, score of the best explanation, optimality, gap, no repeats, weak completeness, exact reported set).",
    "Trusted: mc/ref/cn_ref.py. Depth vectors are given directly (normalisation is C07). Tolerance 1e-4, don't-care band at the gap bound.",
    "DESIGN.md §4 C03",
)

CLAIMED["C01"] = (
    "bounded exhaustive enumeration of planted genotypes (all minor pairs, +1/+2 structural transitions) simulated as alignments and run through genotype(); premise evaluated by enumeration of structures",
    "Every pair of catalogued minors (and each next to a whole-gene deletion), each extended by one (thorough: two) transitions - extra copy, fused copy, partially deleted copy - over generated databases on either strand, with/without pseudogene and alignment indels, read lengths 50-250, 20/30x, three indel placements, is simulated with a perfect aligner and genotyped end to end; the planted majors must be among the reported solutions and every reported solution must carry exactly the planted variants, whenever the planted structure is an optimum of the depths aldy computed (decided by cn_ref enumeration).",
    "Trusted: the read simulator (checked by C06 against an independent CIGAR interpreter), cn_ref. Only catalogued alleles are planted. Shipped genes are not simulated in this tier.",
    "DESIGN.md §4 C01",
)
CLAIMED["C04"] = (
    "bounded exhaustive enumeration of evidence tables and phase patterns executed on estimate_minor, judged against enumeration of all (minor choice x per-site carried variant) assignments",
    "Every noise-free table of every multiset of <=2-3 catalogued minors, and every table within 1 (thorough 2) deviations (cell scaling, uncatalogued-for-this-allele variant, novel core variant handed down, one read-phase pattern), over the toy gene and generated databases is refined by aldy and compared with a complete enumeration of admissible assignments: the rules of the property on the reported alleles, score = optimum, reported assignment = documented read-out of an optimal assignment, agreement on infeasibility, planted variants reproduced.",
    "Trusted: mc/ref/minor_ref.py. Tolerance 5e-3 (documented tie-breaker). One major solution per call.",
    "DESIGN.md §4 C04",
)
CLAIMED["C06"] = (
    "bounded exhaustive enumeration of CIGAR strings (BFS, one operation per level) x start offsets x query variants on the real CIGAR walk, and of ordered read lists through the real file path, judged against an independent CIGAR interpreter and htslib",
    "All CIGARs of <=3 operations (quick; a seed-rotated eighth of the 4-operation ones; thorough: all <=4) over {M,=,X,I,D,S} x lengths 1-3 at every start offset of a window with a SNV, two MNVs and a deletion site, with every single mismatch and complete/partial MNV, on both strands; all ordered lists of <=2 (thorough 3) reads from a menu of 17 awkward alignments as SAM text and BAM. Depth, per-variant counts, MNV merging, ineligible reads, quality classes, phase records are compared exactly.",
    "Trusted: mc/ref/pileup_ref.py (80 lines) and pysam/htslib. Quality binning is checked by class, not by value.",
    "DESIGN.md §4 C06",
)
CLAIMED["C07"] = (
    "bounded exhaustive enumeration of samples x transformations (every read xk, gene reads xk, self-profile, neutral reads removed) executed on Sample/Profile, relational oracle on every edge",
    "For every combination of generated database (either strand, with/without pseudogene), planted structure, awkward-read set, neutral-region choice and profile source (BAM, written profile file), and every transformation k in 2..5, the normalised region depths are compared across the edge: invariant under xk of all reads (and identical structure calls), linear in gene reads, exactly 2.0 against the own profile, rejected without neutral reads.",
    "Trusted: the simulator. Tolerance 1e-9.",
    "DESIGN.md §4 C07",
)
CLAIMED["C08"] = (
    "exhaustive enumeration of every catalogued variant of every shipped database x build and of generated databases (both strands, alignment indels), sequence-level oracle",
    "Every entry of every catalogue (38 shipped databases x 2 builds, toy, generated worlds) is applied in genome terms and in RefSeq terms and the haplotypes compared; reference alleles, inverse maps, written notation, the variant handed to indel realignment, the long-read equivalence table and inferred amino-acid effects (against an independent translation) are checked for each.",
    "Trusted: 30 lines of sequence editing in mc/props/c08.py. Windows touching unmapped alignment columns are skipped and counted.",
    "DESIGN.md §4 C08",
)
CLAIMED["C09"] = (
    "exhaustive enumeration of shipped catalogues x builds plus BFS over generated allele tables (names, variant subsets, labels, structural suffixes), oracle = grouping recomputed from the YAML text",
    "All shipped databases in both builds and every generated table (all pairs of names x all variant subsets; one (thorough two) transitions adding a label, a structural entry or a third allele) are loaded on opposite strands and compared with a grouping computed from the YAML in RefSeq terms: reachability through the alias table, partition into majors, core/silent split, distinct minors, configurations, partial alleles of fusions, build independence.",
    "Trusted: yaml_alleles()/invariants() in mc/props/c09.py. The allele number 1 is reserved for the default configuration.",
    "DESIGN.md §4 C09",
)
CLAIMED["C11"] = (
    "breadth-first enumeration of called-allele multisets (one more copy per level), each evaluated in every permutation, invariant oracle",
    "Every multiset of 0-4 (thorough 0-6) called copies over the toy gene, a generated database with a tandem entry, GSTM1, CYP2D6/CYP2A6 alphabets and CYP2C19, in every permutation of the copy order: partition, non-empty haplotypes, deletion placeholders, rendered names, tandem adjacency, natural order, order independence for <=2 copies.",
    "Solutions are constructed directly. Beyond 4 copies only rotations and the reversal are permuted.",
    "DESIGN.md §4 C11",
)
CLAIMED["C12"] = (
    "breadth-first enumeration of solution lists (one more solution per level) through both writers, parsed back by independent parsers",
    "Every single solution of 1-2 (thorough 3) copies over a copy alphabet with SNV/MNV/insertion/deletion definitions, added and lost variants, and every list extended by one (thorough two) further solutions, on generated databases of either strand (thorough: CYP2D6, CYP2C19): decomposition rows, coverage, effect, dbSNP, empty rows; VCF columns, GT/MA/MI/DP per copy, one-based POS, REF/ALT applied to the reference; round trip.",
    "Own parsers. The toy database is excluded (its variants do not match its reference). Known finding D6a is matched by its exact signature.",
    "DESIGN.md §4 C12",
)
CLAIMED["C18"] = (
    "exhaustive product parameter x spelling x route, plus write->load histories, executed on Profile / main() / Profile.load",
    "Every model parameter of Profile found by introspection x every spelling for its type (incl. malformed ones) x {constructor, --param with underscore and hyphen, options section, load keyword}, unknown names, None, and the write(profile command)->load round trip for every single parameter and every pair.",
    "The command line is driven through the real main() with genotype() replaced by a recorder.",
    "DESIGN.md §4 C18",
)

CLAIMED["C19"] = (
    "exhaustive product read placement x depth x mode x world, one transition per output kind, executed on genotype()",
    "Every combination of read placement (none, neutral only, pseudogene only, gene only, gene+pseudogene without neutral, everything), depth (below / just above the minimum / full), mode (profile file, BAM profile, user-supplied structure), output kind (none, .aldy, .vcf, .simple) and generated database (either strand, with/without pseudogene) is genotyped end to end: where the property demands it the run must end in an AldyException, write no solution rows and one empty simple line; pseudogene-only evidence must be called as the whole-gene deletion; the full sample as *1/*1.",
    "Trusted: the simulator. Depth exactly at the documented minimum is avoided.",
    "DESIGN.md §4 C19",
)

CLAIMED["C16"] = (
    "bounded exhaustive enumeration of catalogued genotypes x VCF encodings (BFS: one encoding change per level) loaded by Sample() and genotyped end to end",
    "Every catalogued minor allele heterozygous and homozygous and every pair of minors (generated databases on either strand; thorough: SLCO1B1, NAT2, TPMT, CYP2C19 singles) is written as a left-anchored indexed VCF in the default encoding and with one encoding change (MNV as adjacent records, phased, REF swapped, complex/missing/haploid records mixed in, 2-3 sample columns with every index); per catalogued variant the support must equal the number of alternate copies, the reference support must complement it, unrecorded sites must be homozygous reference, and the end-to-end call must be the planted pair.",
    "Records use the database's own indel placement. Reference support under an insertion is not required to drop.",
    "DESIGN.md §4 C16",
)

CLAIMED["C10"] = (
    "bounded exhaustive protocol exploration: genotype() and estimate_minor() run for real with the three stage functions scripted (full product of score alphabets, one structural transition per level) plus recorded real samples; oracle = independent recomputation of the selection",
    "Every script over a fixed shape (two structures; 2+1 major candidates; one refinement each) with scores from small alphabets chosen to straddle the solution precision and the gaps {0, 0.1, 0.3}, and every script reached by one transition (a stage answering with nothing, a second refinement, a third structure), is run through the real genotype()/estimate_minor(); the reported list (set, scores, best-first order, empty-stage error) is compared with select_ref() and every reported solution is checked as a chain (alleles vs structure, minors vs majors, diplotype indices). Simulated samples with thinned or half-depth copies are run with recorders around the three stages and the final list is recomputed from the recorded outputs.",
    "The stage stubs are installed from the harness at run time (no source change). Real samples rarely produce competing candidates; the scripted part carries the exhaustive claim.",
    "DESIGN.md §4 C10",
)
CLAIMED["C13"] = (
    "bounded exhaustive enumeration of RefSeq-level evidence (planted allele multisets x one deviation incl. phase patterns) instantiated against both builds, and of simulated genotypes aligned against both builds; oracle = equality in RefSeq notation",
    "For the toy database (opposite strands in hg19/hg38) and generated databases with opposite strands (thorough: shipped databases hg19 vs hg38), every noise-free table of every pair (triple) of minors and every table with one deviation expressible in both coordinate systems, every structure depth vector with one deviation, and twelve simulated genotypes aligned against each build, are solved in both builds; structures, major and minor solutions, scores (1e-2) and added/lost variants in RefSeq notation must agree.",
    "Reference evidence is scaled per group of variants that share a model site in either build. Differences attributable to a site shared on one strand only (D13) and to tie choice (D7) are known findings with their own signatures.",
    "DESIGN.md §4 C13",
)
CLAIMED["C14"] = (
    "explicit-state breadth-first search over API operation histories on one process-wide context (state = digest of catalogue, evidence, held results; expansion pruned at seen digests), fresh-process runs per hash seed, and all ordered subsets of candidate major solutions for the minor stage",
    "Histories: from the empty context and from the stage prefixes, every operation of an alphabet of ~185 (stage calls, every public member of nine classes found by introspection with arity-matched arguments, both writers, query printing, single/multi-gene genotype() incl. a failing gene) is applied (quick: one, thorough: two beyond the prefix); after every operation the catalogue and the evidence must digest like a fresh load, and (finalize) every operation must give the same result from every state, multi-gene runs must equal the union of single runs. Hash seeds 0-7 in fresh processes must give identical output. For four candidate families every ordered subset of <=3 (4) candidates is refined jointly and compared with the solo refinement (three-way oracle for D7/D8).",
    "Digests sort all sets; scores at 1e-2. The context is a deep copy of a never-touched template that is re-digested before each history.",
    "DESIGN.md §4 C14",
)
CLAIMED["C15"] = (
    "bounded exhaustive enumeration of evidence tables x threshold settings x one low-quality edit, executed on estimate_major + estimate_minor; metamorphic oracle on the edge plus support invariant in every state",
    "Every noise-free and one-deviation table (incl. a lone qualifying reference read) of pairs of minors under five threshold settings, and every table obtained by adding 1/5/50 observations below the base-quality or mapping-quality threshold (or both) to one cell or to an unplanted catalogued variant: the complete major and minor output must be unchanged, and every called core variant, novel variant and carried variant must have enough qualifying reads.",
    "Table level. Quick explores a seed-rotated twelfth of the edits.",
    "DESIGN.md §4 C15",
)
CLAIMED["C17"] = (
    "bounded exhaustive enumeration of samples x replay parameters; each state runs the command line with --debug in a child process and genotypes the archive (child process and in-process)",
    "Ten simulated samples of the C01 kind (structures, indels, both strands) and four phase-decisive paired-read samples per world and build, each replayed plainly and with one extra parameter (gap, max_minor_solutions, phase off, an extreme min_coverage) given on the replay only: output files must be byte-identical to the direct run with the same parameters, solutions identical, scores within 1e-2, sample name equal.",
    "Child processes import aldy from $VERIF_REPO. NA10860 only in the thorough tier.",
    "DESIGN.md §4 C17",
)

PENDING_REASON = "check not built yet in this session (design in DESIGN.md §4); not claimed until it runs silently on the unchanged tree"
NOT_APPLICABLE = {}


def manifest():
    checks = []
    for pid in sorted(CLAIMED):
        tech, text, note, ref = CLAIMED[pid]
        checks.append({
            "property_id": pid,
            "quick_cmd": f"bin/check {pid} --tier quick",
            "thorough_cmd": f"bin/check {pid} --tier thorough",
            "evidence_file": f"/verif/evidence/{pid}.json",
            "replay_cmd_template": f"bin/check {pid} --replay {{path}}",
            "engine": "mc-explore",
            "level_claimed": {"category": "model_checking", "text": text, "design_ref": ref},
            "level_note": note,
            "technique": tech,
        })
    na = []
    for pid in sorted(TITLES):
        if pid in CLAIMED:
            continue
        na.append({"property_id": pid, "reason": NOT_APPLICABLE.get(pid, PENDING_REASON)})
    return {
        "version": 1,
        "setup_cmd": "bin/setup",
        "hooks": {
            "guard": "ALDY_VERIF",
            "enable": "no source hooks: the harness wraps module attributes of the working tree at run time (ALDY_VERIF=1 is exported by bin/check but nothing in /repo reads it)",
            "baseline_off_cmd": "cd /repo && /venv/bin/python -m pytest -ra -q -p no:cacheprovider --timeout=900 --continue-on-collection-errors",
            "source_commits": [],
            "add_only": True,
        },
        "engines": [{
            "name": "mc-explore",
            "path": "mc/explore.py",
            "serves_properties": sorted(CLAIMED),
            "kind_free_text": "hand-written explicit-state / bounded-exhaustive explorer for Python: BFS by deviation count over picklable states, canonical de-duplication, every state executed on the real implementation in worker processes, brute-force reference models as oracles, replay files",
        }],
        "checks": checks,
        "not_applicable": na,
        "notes": "All checks run aldy from /repo's working tree (VERIF_REPO overrides). VERIF_SEED rotates the exhaustive slice added to the fixed quick core; VERIF_JOBS sets the worker count.",
    }


if __name__ == "__main__":
    with open(os.path.join(ROOT, "MANIFEST.json"), "w") as f:
        json.dump(manifest(), f, indent=1)
    print("MANIFEST.json written:", sorted(CLAIMED))
