"""Registry of the checks: which properties are claimed, with which level text.
`python -m mc.registry` rewrites MANIFEST.json from it."""
import json
import os

ROOT = os.path.dirname(os.path.dirname(os.path.abspath(__file__)))

TITLES = {}
with open(os.path.join(ROOT, "properties.jsonl")) as f:
    for line in f:
        p = json.loads(line)
        TITLES[p["id"]] = p["title"]

# id -> (technique, level text, level note, design ref)
CLAIMED = {
    "C05": (
        "bounded exhaustive enumeration of ILP models (BFS over model features) executed on lpinterface+CBC, judged against 2^n closed-form enumeration",
        "Every model of aldy's shape up to the stated feature bound (2-4 binaries quick, up to 6 thorough; 1-3 error rows; cardinality, ordering chain, penalties, gap, limit, bounded errors) is built through the real solver interface and its complete yield list is compared with an enumeration of all binary assignments; all products of 1-4 factors, all sign patterns of 1-4 absolute terms and all pairs of colliding names are enumerated. Exhaustive below the bound, nothing above it.",
        "Trusted: the 60-line closed-form evaluator in mc/ref/ilp_ref.py; CBC is the unit under test together with lpinterface. Tolerance 1e-4 with a don't-care band at the gap boundary.",
        "DESIGN.md §4 C05",
    ),
}

CLAIMED["C02"] = (
    "bounded exhaustive enumeration of evidence tables (planted allele multisets x 0-2 count deviations) executed on estimate_major, judged against enumeration of all allele multisets",
    "Every noise-free table planted from every admissible multiset of catalogued majors for every structure of 1-3 (toy: 4) copies, and every table reachable by 1 (thorough: 2) count deviations, over the toy gene and generated databases (and all pairs for six shipped genes, thorough), is solved by aldy and compared with a reference that enumerates every admissible allele multiset and evaluates the documented objective: configuration counts, carried-xor-novel, score, optimality, completeness within the gap, no duplicates, planted combination at error 0.",
    "Trusted: mc/ref/major_ref.py (filters re-derived from the documentation, closed-form objective) and mc/tables.py. Tables, not alignments (C06/C01 cover the path from reads). States with a count exactly on a filter threshold are skipped and counted.",
    "DESIGN.md §4 C02",
)
CLAIMED["C03"] = (
    "bounded exhaustive enumeration of region-depth vectors (planted structures x 0-2 additive deviations, fusion-support assignments, user lists) executed on solve_cn_model/estimate_cn, judged against enumeration of all internal structure assignments",
    "Every depth vector of every planted structure (two complete configurations, 0-3 extra copies, 0-1 extra pseudogene copies, including vectors no admissible structure explains exactly) with 0-1 (thorough 0-2) cell deviations, max copy number 3-6, gap {0,0.1,0.3}, every assignment of long-read support values to the fusions, every user list of length <=3 over the configuration names plus an unknown one, and all shipped genes in the no-copy-number mode, is solved by aldy and compared with a complete enumeration of internal assignments (well-formedness, score of the best explanation, optimality, gap, no repeats, weak completeness, exact reported set).",
    "Trusted: mc/ref/cn_ref.py. Depth vectors are given directly (normalisation is C07). Tolerance 1e-4, don't-care band at the gap bound.",
    "DESIGN.md §4 C03",
)

PENDING_REASON = "check not built yet in this session (design in DESIGN.md §4); not claimed until it runs silently on the unchanged tree"
NOT_APPLICABLE = {}


def manifest():
    checks = []
    for pid in sorted(CLAIMED):
        tech, text, note, ref = CLAIMED[pid]
        checks.append({
            "property_id": pid,
            "quick_cmd": f"bin/check {pid} --tier quick",
            "thorough_cmd": f"bin/check {pid} --tier thorough",
            "evidence_file": f"/verif/evidence/{pid}.json",
            "replay_cmd_template": f"bin/check {pid} --replay {{path}}",
            "engine": "mc-explore",
            "level_claimed": {"category": "model_checking", "text": text, "design_ref": ref},
            "level_note": note,
            "technique": tech,
        })
    na = []
    for pid in sorted(TITLES):
        if pid in CLAIMED:
            continue
        na.append({"property_id": pid, "reason": NOT_APPLICABLE.get(pid, PENDING_REASON)})
    return {
        "version": 1,
        "setup_cmd": "bin/setup",
        "hooks": {
            "guard": "ALDY_VERIF",
            "enable": "no source hooks: the harness wraps module attributes of the working tree at run time (ALDY_VERIF=1 is exported by bin/check but nothing in /repo reads it)",
            "baseline_off_cmd": "cd /repo && /venv/bin/python -m pytest -ra -q -p no:cacheprovider --timeout=900 --continue-on-collection-errors",
            "source_commits": [],
            "add_only": True,
        },
        "engines": [{
            "name": "mc-explore",
            "path": "mc/explore.py",
            "serves_properties": sorted(CLAIMED),
            "kind_free_text": "hand-written explicit-state / bounded-exhaustive explorer for Python: BFS by deviation count over picklable states, canonical de-duplication, every state executed on the real implementation in worker processes, brute-force reference models as oracles, replay files",
        }],
        "checks": checks,
        "not_applicable": na,
        "notes": "All checks run aldy from /repo's working tree (VERIF_REPO overrides). VERIF_SEED rotates the exhaustive slice added to the fixed quick core; VERIF_JOBS sets the worker count.",
    }


if __name__ == "__main__":
    with open(os.path.join(ROOT, "MANIFEST.json"), "w") as f:
        json.dump(manifest(), f, indent=1)
    print("MANIFEST.json written:", sorted(CLAIMED))
