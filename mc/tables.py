"""Table-level evidence: noise-free planting of alleles into a read-count table, deviations,
and the glue to aldy's Coverage.  A table is {pos: {op: count}} with integer counts of
high-quality observations (quality pair HQ) plus an optional list of extra observations
[(pos, op, n, (mapq, q))] of other qualities."""
import collections

HQ = (60, 60)


def catalogue(gene):
    """Sorted list of catalogued variants (pos, op)."""
    return sorted(gene.mutations)


def is_core(gene, m):
    return gene.mutations[m][0] is not None


def allele_variants(gene, major, minor=None):
    a = gene.alleles[major]
    s = set((m.pos, m.op) for m in a.func_muts)
    if minor:
        s |= set((m.pos, m.op) for m in a.minors[minor].neutral_muts)
    return s


def region_cn(gene, config, pos):
    r = gene.region_at(pos)
    if not r:
        return 0
    return gene.cn_configs[config].cn[r[0]][r[1]]


def plant(gene, copies, depth, sites=None):
    """copies: list of (config, set of (pos, op)) — the haplotype copies present.
    Returns {pos: {op: count}} over `sites` (default: every catalogued position)."""
    sites = sorted({p for p, _ in gene.mutations}) if sites is None else sites
    table = {}
    for pos in sites:
        d = collections.Counter()
        for config, vs in copies:
            if region_cn(gene, config, pos) <= 0:
                continue
            here = [op for (p, op) in vs if p == pos]
            non_ins = [op for op in here if not op.startswith("ins")]
            for op in here:
                d[op] += depth
            if not non_ins:
                d["_"] += depth
        table[pos] = {op: n for op, n in d.items() if n > 0}
    return table


def apply_deviations(table, devs):
    """devs: tuple of ("scale", pos, op, factor) | ("set", pos, op, count).  Counts are rounded
    to integers (tables are integer read counts)."""
    t = {p: dict(d) for p, d in table.items()}
    for kind, pos, op, x in devs:
        d = t.setdefault(pos, {})
        if kind == "scale":
            d[op] = int(round(d.get(op, 0) * x))
        elif kind == "set":
            d[op] = int(x)
        elif kind == "add":
            d[op] = d.get(op, 0) + int(x)
        else:
            raise ValueError(kind)
        if d[op] <= 0:
            del d[op]
    return t


def to_coverage(gene, profile, table, extra=(), sam=None, indel_mode=False, hq=None):
    """aldy Coverage from a count table.  `extra` observations carry their own qualities.
    indel_mode=False: indels live in the pileup table itself (the form the unit tests use);
    indel_mode=True: indel counts go to the indel-support table (off, on), as the
    alignment path produces them."""
    from aldy.coverage import Coverage

    HQ = hq or globals()["HQ"]
    cov = {}
    indels = {}
    for pos, d in table.items():
        for op, n in d.items():
            if indel_mode and op[:3] in ("ins", "del"):
                tot = sum(v for o, v in d.items() if not o.startswith("ins"))
                indels[pos, op] = (max(0, tot - n) if op.startswith("del") else tot, n)
                if op.startswith("del"):
                    cov.setdefault(pos, {}).setdefault("-", []).extend([HQ] * n)
                continue
            cov.setdefault(pos, {}).setdefault(op, []).extend([HQ] * n)
    for pos, op, n, q in extra:
        cov.setdefault(pos, {}).setdefault(op, []).extend([tuple(q)] * n)
    return Coverage(gene, profile, sam, cov, indels if indel_mode else None, {})


def counts(table, pos, op):
    return table.get(pos, {}).get(op, 0)
