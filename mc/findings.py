"""Known findings: read-only at run time.  An entry matches exactly one violation
signature (optionally only on inputs whose description contains `input_contains`), so a
different violation of the same property is still reported.  `fixed` entries are a record
only and suppress nothing."""
import json
import os

ROOT = os.path.dirname(os.path.dirname(os.path.abspath(__file__)))


def load():
    p = os.path.join(ROOT, "known_findings.json")
    if not os.path.exists(p):
        return []
    with open(p) as f:
        return json.load(f)["findings"]


def match(pid, sig, described_state, entries=None):
    for e in entries if entries is not None else load():
        if e.get("status") != "known" or e["property"] != pid:
            continue
        if e["signature"] != sig:
            continue
        need = e.get("input_contains")
        if need and need not in described_state:
            continue
        return e
    return None
