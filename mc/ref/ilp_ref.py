"""Brute-force reference for small ILP models of aldy's shape (no solver involved)."""
import itertools

NAME_MENU = ("A_1.1", "A_11", "A_1-1", "A_1m1", "A_1#1", "A_1__1", "A_1>1", "A_1", "B.x", "Bx")


def plain_escape(s):
    """The documented escaping (without the uniquifying counter)."""
    return s.replace(".", "").replace("-", "m").replace("#", "__").replace(">", "")[:200]


def enumerate_model(n, rows, card, chain, pens, ebound):
    """assignment tuple -> objective (None if infeasible).  Error terms are fixed by their
    equalities: e_i = t_i - sum a_ij x_j ; objective = sum |e_i| + sum pen_j x_j."""
    out = {}
    for x in itertools.product((0, 1), repeat=n):
        ok = True
        if card is not None and sum(x) != card:
            ok = False
        if chain and any(x[j] > x[j - 1] for j in range(1, n)):
            ok = False
        obj = 0.0
        for cv, t in rows:
            e = t - sum(a * b for a, b in zip(cv, x))
            if ebound is not None and abs(e) > ebound + 1e-9:
                ok = False
            obj += abs(e)
        obj += sum(p * b for p, b in zip(pens, x))
        out[x] = obj if ok else None
    return out


def judge_enumeration(table, names, yields, gap, limit, tol):
    """Checks the yielded list [(status, obj, active names)] against the enumeration.
    Returns a list of (signature, message)."""
    v = []
    idx = {nm: j for j, nm in enumerate(names)}
    feas = {x: o for x, o in table.items() if o is not None}
    if not feas:
        if yields:
            v.append(("enum/solution-for-infeasible-model", f"no feasible assignment exists, yielded {yields[:2]}"))
        return v
    best = min(feas.values())
    ub = (1 + gap) * best
    if not yields:
        v.append(("enum/no-solution-for-feasible-model", f"reference optimum {best}, nothing yielded"))
        return v
    if abs(yields[0][1] - best) > tol:
        v.append(("enum/first-not-global-optimum", f"first yield {yields[0][1]} vs enumerated optimum {best}"))
    seen = []
    prev = None
    for status, obj, sol in yields:
        unknown = [s for s in sol if s not in idx]
        if unknown:
            v.append(("enum/unknown-binary", f"{unknown}"))
            continue
        x = tuple(1 if names[j] in sol else 0 for j in range(len(names)))
        if table.get(x) is None:
            v.append(("enum/infeasible-yield", f"yielded {sol} (obj {obj}) is infeasible"))
        elif abs(table[x] - obj) > tol:
            v.append(("enum/wrong-objective", f"yielded {sol} with objective {obj}; closed form gives {table[x]}"))
        if obj > ub + tol + 1e-5:
            v.append(("enum/outside-gap", f"yielded {sol} obj {obj} > (1+{gap})*{best}"))
        if x in seen:
            v.append(("enum/duplicate", f"assignment {sol} yielded twice"))
        seen.append(x)
        if prev is not None and obj < prev - tol:
            v.append(("enum/decreasing", f"objective {obj} after {prev}"))
        prev = obj
    truncated = bool(limit) and len(yields) >= limit
    if not truncated:
        for x, o in feas.items():
            if o < ub - tol and x not in seen:
                # must be a superset of a yielded assignment that scores no worse
                if not any(all(a >= b for a, b in zip(x, y)) and table[y] is not None and table[y] <= o + tol
                           for y in seen):
                    act = [names[j] for j in range(len(names)) if x[j]]
                    v.append(("enum/missing-within-gap", f"feasible {act} obj {o} <= {ub} neither yielded nor a superset of a yielded solution scoring no worse"))
                    break
    elif limit and len(yields) > limit:
        v.append(("enum/limit-exceeded", f"{len(yields)} yields with limit {limit}"))
    return v
