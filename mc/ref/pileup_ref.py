"""Independent CIGAR interpreter: what one alignment shows at every reference position."""
import collections

OPCODE = {"M": 0, "I": 1, "D": 2, "N": 3, "S": 4, "H": 5, "P": 6, "=": 7, "X": 8}


def parse_cigar(s):
    out, n = [], ""
    for c in s:
        if c.isdigit():
            n += c
        else:
            out.append((c, int(n)))
            n = ""
    return out


def bin_interval(q):
    """Quality classes (a binned quality must stay inside the class of the raw quality)."""
    if q < 2:
        return (q, q)
    if q < 10:
        return (2, 9)
    if q < 20:
        return (10, 19)
    if q < 29:
        return (20, 28)
    if q < 39:
        return (29, 38)
    return (39, 10 ** 6)


def interpret(gene, start, cigar, seq, quals=None):
    """-> (obs, ins) where obs = [(pos, op, qi)] with op in {'_', 'X>Y', '-'} and qi the query index of
    the base (None for deletions); ins = [(pos_of_next_base, inserted string)].
    A mismatch is only reported inside the RefSeq-mapped part (elsewhere the base counts as reference)."""
    obs, ins = [], []
    r, q = start, 0
    for op, n in cigar:
        if op in "M=X":
            for i in range(n):
                b = seq[q + i]
                rp = r + i
                if rp in gene.chr_to_ref and gene[rp] != b:
                    obs.append((rp, f"{gene[rp]}>{b}", q + i))
                else:
                    obs.append((rp, "_", q + i))
            r += n
            q += n
        elif op == "I":
            ins.append((r, seq[q:q + n]))
            q += n
        elif op == "D":
            for i in range(n):
                obs.append((r + i, "-", None))
            r += n
        elif op == "S":
            q += n
        elif op in "HP":
            pass
        elif op == "N":
            r += n
    return obs, ins


def functional_mnvs(gene):
    """Catalogued multi-nucleotide substitutions that define a major allele."""
    out = {}
    for a in gene.alleles.values():
        for m in a.func_muts:
            if ">" in m.op and len(m.op) > 3:
                out[m.pos] = m.op
    return out


def merge_mnvs(gene, obs):
    """A read that shows every component of a catalogued MNV is counted once under the MNV at its
    first position and as reference at the other component positions."""
    shown = {(p, o) for p, o, _ in obs}
    out = list(obs)
    for pos, op in functional_mnvs(gene).items():
        l, r = op.split(">")
        comps = [(pos + k, f"{l[k]}>{r[k]}") for k in range(len(l)) if l[k] != "."]
        if all(c in shown for c in comps):
            new = []
            used = set()
            for p, o, qi in out:
                if (p, o) in comps and (p, o) not in used:
                    used.add((p, o))
                    new.append((p, op if p == pos else "_", qi))
                else:
                    new.append((p, o, qi))
            out = new
    return out


def pileup_of_read(gene, start, cigar, seq):
    """Counter {(pos, op): n} of non-insertion observations after MNV merging, and insertions."""
    obs, ins = interpret(gene, start, cigar, seq)
    obs = merge_mnvs(gene, obs)
    return collections.Counter((p, o) for p, o, _ in obs), ins


def shown_alleles(gene, start, cigar, seq):
    """pos -> set of alleles a read shows there (for the phase record): base-level alleles,
    a deletion at its first base, an insertion at the base that follows it."""
    obs, ins = interpret(gene, start, cigar, seq)
    d = collections.defaultdict(set)
    aligned = set()
    for p, o, qi in obs:
        if o != "-":
            d[p].add(o)
            aligned.add(p)
    r = start
    for op, n in cigar:
        if op == "D":
            d[r].add("del" + gene[r:r + n])
        if op in "M=XDN":
            r += n
    for p, s in ins:
        d[p].add("ins" + s)
    return d, aligned
