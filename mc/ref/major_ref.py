"""Reference model of the major star-allele stage: brute-force enumeration of every
admissible allele multiset with the documented objective in closed form.  Shares no code
with aldy; works on plain count tables {pos: {op: [quality pairs]}}."""
import collections
import itertools


class Boundary(Exception):
    """A count sits exactly on a filter threshold: the state is not judged."""


def quality_filtered(p, obs):
    out = {}
    for pos, d in obs.items():
        dd = {}
        for op, quals in d.items():
            k = [x for x in quals if x[1] >= p.min_quality and x[0] >= p.min_mapq]
            if k:
                dd[op] = k
        out[pos] = dd
    return out


def total(t, pos):
    return sum(len(q) for op, q in t.get(pos, {}).items() if not op.startswith("ins"))


def cnt(t, pos, op):
    return len(t.get(pos, {}).get(op, ()))


def passes(p, t, pos, op, copies_here, strict_boundary=True):
    """Documented read filters: count >= max(min_coverage, total*threshold/cn_max) and, for a
    variant, >= total*threshold/(copies at the position + 0.5)."""
    n, T = cnt(t, pos, op), total(t, pos)
    lims = [p.threshold / p.cn_max]
    if op != "_":
        lims.append(p.threshold / (copies_here + 0.5))
    ok = True
    for lim in lims:
        x = T * lim
        if strict_boundary and abs(n - x) < 1e-9 and x >= p.min_coverage - 1e-9:
            raise Boundary((pos, op, n, x))
        ok = ok and n >= max(p.min_coverage, x)
    return ok


def threshold_filtered(p, t, copies_at):
    out = {}
    for pos, d in t.items():
        out[pos] = {op: q for op, q in d.items() if passes(p, t, pos, op, copies_at(pos))}
    return out


def position_cn(gene, cnlist, pos):
    r = gene.region_at(pos)
    if not r:
        return 0
    return sum(gene.cn_configs[c].cn[r[0]][r[1]] for c in cnlist)


def has_cov(gene, allele, pos):
    r = gene.region_at(pos)
    if not r:
        return False
    return gene.cn_configs[gene.alleles[allele].cn_config].cn[r[0]][r[1]] > 0


def solve(gene, p, obs, cnlist, gap):
    """Returns (all admissible [(objective, alleles tuple, novel tuple)], filtered table)."""
    cncount = collections.Counter(cnlist)
    q = quality_filtered(p, obs)
    f = threshold_filtered(p, q, lambda pos: position_cn(gene, cnlist, pos))
    core = [m for m in gene.mutations if gene.mutations[m][0] is not None]
    observed = sorted(m for m in core if cnt(f, m[0], m[1]) > 0)
    cands = [a for a, al in gene.alleles.items()
             if al.cn_config in cncount and all(cnt(f, m.pos, m.op) > 0 for m in al.func_muts)]
    if set(cncount) - {gene.alleles[a].cn_config for a in cands}:
        return [], f
    groups = []
    for cfg, k in sorted(cncount.items()):
        names = sorted(a for a in cands if gene.alleles[a].cn_config == cfg)
        groups.append(list(itertools.combinations_with_replacement(names, k)))

    def single(pos):
        pc = position_cn(gene, cnlist, pos)
        return 0 if pc == 0 else max(1, total(f, pos)) / pc

    carries = {a: set((m.pos, m.op) for m in gene.alleles[a].func_muts) for a in cands}
    res = []
    for combo in itertools.product(*groups):
        S = [a for grp in combo for a in grp]
        novel = [m for m in observed if not any(m in carries[a] for a in S)]
        per_site = collections.Counter(m[0] for m in novel if not m[1].startswith("ins"))
        if any(v > 1 for v in per_site.values()):
            continue
        err = 0.0
        for m in observed:
            s = single(m[0])
            seen = cnt(f, m[0], m[1]) / s if s else 0.0
            err += abs(seen - (sum(1 for a in S if m in carries[a]) + (1 if m in novel else 0)))
        for pos in sorted({m[0] for m in observed}):
            s = single(pos)
            seen = cnt(f, pos, "_") / s if s else 0.0
            e = sum(1 for a in S if has_cov(gene, a, pos)
                    and not any(mp == pos and not mo.startswith("ins") for mp, mo in carries[a]))
            err += abs(seen - e)
        obj = err + (p.major_novel if novel else 0.0) + 0.1 * len(novel)
        res.append((obj, tuple(sorted(S)), tuple(sorted(novel))))
    return res, f


def judge(gene, p, obs, cnlist, gap, got, tol=1e-4, planted=None):
    """got: list of (score, alleles tuple, novel tuple) as reported by aldy (duplicates kept).
    Returns (violations, info)."""
    v = []
    res, f = solve(gene, p, obs, cnlist, gap)
    refd = {(S, N): o for o, S, N in res}
    cncount = collections.Counter(cnlist)
    core = {m for m in gene.mutations if gene.mutations[m][0] is not None}
    observed = {m for m in core if cnt(f, m[0], m[1]) > 0}
    keys = [(S, N) for _, S, N in got]
    if len(set(keys)) != len(keys):
        v.append(("major/duplicate", f"combination reported twice: {keys}"))
    for score, S, N in got:
        cc = collections.Counter(gene.alleles[a].cn_config for a in S)
        if cc != cncount:
            v.append(("major/config-count", f"alleles {S} fill configurations {dict(cc)} but the structure is {dict(cncount)}"))
            continue
        for m in observed:
            carried = any(m in {(x.pos, x.op) for x in gene.alleles[a].func_muts} for a in S)
            if carried == (m in N):
                v.append(("major/carried-xor-novel", f"observed core variant {m} carried={carried} novel={m in N} in {S} & {N}"))
        for m in N:
            if m not in observed:
                v.append(("major/novel-not-observed", f"{m} flagged novel but has no filtered support"))
        for a in S:
            for x in gene.alleles[a].func_muts:
                if (x.pos, x.op) not in observed:
                    v.append(("major/unsupported-core", f"called {a} carries {(x.pos, x.op)} without filtered support"))
        if (S, N) in refd and abs(refd[S, N] - score) > tol:
            v.append(("major/score", f"{S} & {N}: reported {score}, closed form {refd[S, N]}"))
        if (S, N) not in refd and cc == cncount:
            v.append(("major/inadmissible", f"{S} & {N} is not an admissible combination of the reference enumeration"))
    if res:
        best = min(o for o, _, _ in res)
        ub = (1 + gap) * best
        if not got:
            v.append(("major/none-reported", f"reference optimum {best} ({[r for r in res if r[0] <= best + tol][:2]}), nothing reported"))
        else:
            gbest = min(s for s, _, _ in got)
            if gbest > best + tol:
                v.append(("major/not-optimal", f"best reported {gbest}, admissible {[r for r in res if r[0] <= best + tol][:2]} scores {best}"))
            for score, S, N in got:
                if score > ub + tol + 1e-5:
                    v.append(("major/outside-gap", f"{S} score {score} > (1+{gap})*{best}"))
            for o, S, N in res:
                if o < ub - tol and (S, N) not in keys:
                    v.append(("major/missing-within-gap", f"admissible {S} & {N} scores {o} <= {ub} but is not reported"))
                    break
        if planted is not None:
            key = (tuple(sorted(planted)), ())
            hit = [s for s, S, N in got if (S, N) == key]
            if not hit:
                v.append(("major/planted-missing", f"noise-free evidence of {planted}: not among reported {keys}"))
            elif abs(hit[0]) > tol:
                v.append(("major/planted-nonzero", f"noise-free evidence of {planted}: score {hit[0]}"))
    elif got:
        v.append(("major/reported-for-infeasible", f"reference finds no admissible combination, reported {keys}"))
    info = {"ref_n": len(res), "ref_best": min((o for o, _, _ in res), default=None)}
    if res:
        best = info["ref_best"]
        info["within"] = sum(1 for o, _, _ in res if o <= (1 + gap) * best + tol)
    return v, info
