"""Reference model of the gene-structure stage: every internal assignment (two complete
configurations, k pseudogene-free extra copies of the default configuration, j free
pseudogene copies) is enumerated and scored with the documented objective."""
import collections
import itertools


def kinds(gene):
    return {n: c.kind.name for n, c in gene.cn_configs.items()}


def enumerate_assignments(gene, p, configs, max_cn, rc, fusion_support=None):
    """-> list of (objective, folded tuple, frozenset of internal variables)."""
    dele = gene.deletion_allele()
    names = [n for n in configs
             if not fusion_support or n == "1" or (dele and n == dele)
             or (n in fusion_support and fusion_support[n] >= 1 / (2 * max_cn))]
    haspg = len(gene.regions) > 1
    U = list(gene.unique_regions)
    nU = len(U)
    PP = 10.0 / nU * 0.75
    pen = {n: PP for n in names}
    pen["PSEUDO"] = PP
    kd = kinds(gene)
    for n in list(pen):
        if kd.get(n) == "RIGHT_FUSION":
            pen[n] += PP * p.cn_fusion_right
        if kd.get(n) == "LEFT_FUSION":
            pen[n] += PP * p.cn_fusion_left
    defaults = [n for n in names if kd[n] == "DEFAULT"]
    out = []
    for pair in itertools.combinations_with_replacement(sorted(names), 2):
        double_del = bool(dele) and pair == (dele, dele)
        if dele and dele in pair and pair != (dele, dele):
            pass
        for k in range(0, max_cn if defaults else 1):
            for kp in range(0, (max_cn + 1) if (haspg and dele) else 1):
                if double_del and (k or kp):
                    continue
                cn0, cn1 = collections.Counter(), collections.Counter()
                for a in pair:
                    for r in U:
                        cn0[r] += configs[a].cn[0].get(r, 0)
                        if haspg:
                            cn1[r] += configs[a].cn[1].get(r, 0)
                for _ in range(k):
                    for r in U:
                        cn0[r] += configs[defaults[0]].cn[0].get(r, 0)
                        if haspg:
                            cn1[r] += configs[defaults[0]].cn[1].get(r, 0) - 1
                for _ in range(kp):
                    for r in U:
                        cn0[r] += configs[dele].cn[0].get(r, 0)
                        cn1[r] += configs[dele].cn[1].get(r, 0)
                diff = fit = 0.0
                ok = True
                for r in U:
                    c0, c1 = rc[r]
                    scale = max(c0, c1) + 1
                    e = (c0 - c1) / scale - (cn0[r] - cn1[r]) / scale
                    eg = c0 - cn0[r]
                    if abs(e) > p.cn_max + 1e-9 or abs(eg) > p.cn_max + 1e-9:
                        ok = False
                    diff += abs(e) * (p.cn_pce_penalty if r == "pce" else 1)
                    fit += abs(eg)
                if not ok:
                    continue
                items = list(pair) + [defaults[0]] * k
                obj = p.cn_diff / nU * diff + p.cn_fit / nU * fit + \
                    p.cn_parsimony * (sum(pen[a] for a in items) + kp * pen["PSEUDO"])
                fold = tuple(sorted(a for a in items if a != dele))
                act = frozenset([(pair[0], 0), (pair[1], -1 if pair[0] == pair[1] else 0)]
                                + [(defaults[0], i + 1) for i in range(k)]
                                + [("PSEUDO", i + 1) for i in range(kp)])
                out.append((obj, fold, act))
    return out


def expected_report(assignments, gap, tol=1e-7):
    """Simulates the enumeration: non-decreasing objective, an assignment is skipped when it
    contains an already yielded one.  -> ({fold: score}, ambiguous: bool)"""
    if not assignments:
        return {}, False
    out = sorted(assignments, key=lambda x: (x[0], sorted(map(str, x[2]))))
    best = out[0][0]
    ub = (1 + gap) * best
    yielded, res = [], {}
    ambiguous = False
    for obj, fold, act in out:
        if obj > ub + tol:
            if obj <= ub + 1e-4:
                ambiguous = True
            break
        if any(y <= act for y in yielded):
            continue
        if obj > ub - 1e-4:
            ambiguous = True      # on the gap boundary: membership is a don't care
        yielded.append(act)
        if fold not in res:
            res[fold] = obj
    return res, ambiguous


def admissible(gene, fold):
    """The property's well-formedness of a reported structure (deletions implicit)."""
    dele = gene.deletion_allele()
    kd = kinds(gene)
    nondef = [a for a in fold if kd.get(a) != "DEFAULT"]
    n1 = len(fold) - len(nondef)
    if any(a not in gene.cn_configs for a in fold):
        return "unknown configuration"
    if dele and dele in fold:
        return "deletion listed explicitly"
    cnt = collections.Counter(nondef)
    if any(v > 2 for v in cnt.values()) or len(nondef) > 2:
        return "more than two fusion/partial configurations"
    # complete haplotypes: the non-default ones, some default ones, implicit deletions
    need = 2 - len(nondef)
    if need < 0:
        return "more than two complete non-default configurations"
    implicit = max(0, need - n1)
    if implicit and not dele:
        return "fewer than two complete configurations without a deletion allele"
    return None


def judge(gene, p, configs, max_cn, rc, gap, got, fusion_support=None, tol=1e-4):
    """got: list of (score, tuple(sorted configuration multiset))."""
    v = []
    asg = enumerate_assignments(gene, p, configs, max_cn, rc, fusion_support)
    exp, ambiguous = expected_report(asg, gap)
    by_fold = collections.defaultdict(list)
    for o, f, a in asg:
        by_fold[f].append(o)
    keys = [f for _, f in got]
    if len(set(keys)) != len(keys):
        v.append(("cn/duplicate", f"structure reported twice: {keys}"))
    for score, f in got:
        why = admissible(gene, f)
        if why:
            v.append(("cn/malformed", f"{f}: {why}"))
        if f not in by_fold:
            v.append(("cn/inadmissible", f"{f} has no admissible explanation in the reference enumeration"))
        elif abs(min(by_fold[f]) - score) > tol:
            v.append(("cn/score", f"{f}: reported {score}; its best explanation scores {min(by_fold[f])} (all: {sorted(by_fold[f])[:4]})"))
    if asg:
        best = min(o for o, _, _ in asg)
        ub = (1 + gap) * best
        if not got:
            v.append(("cn/none-reported", f"reference optimum {best}, nothing reported"))
        else:
            gbest = min(s for s, _ in got)
            if gbest > best + tol:
                v.append(("cn/not-optimal", f"best reported {gbest} but {[a for a in asg if a[0] <= best + tol][0][1]} scores {best}"))
            for score, f in got:
                if score > ub + tol + 1e-5:
                    v.append(("cn/outside-gap", f"{f} score {score} > (1+{gap})*{best}"))
            # weak completeness as stated in the property
            rep = {f: s for s, f in got}
            for o, f, a in asg:
                if o < ub - tol and f not in rep:
                    fc = collections.Counter(f)
                    if not any(not (collections.Counter(g) - fc) and s <= o + tol for g, s in rep.items()):
                        v.append(("cn/missing-within-gap", f"{f} scores {o} <= {ub}; not reported and contains no reported structure scoring no worse"))
                        break
            # exact agreement with the simulated enumeration (score of first explanation)
            if not ambiguous:
                if set(exp) != set(rep):
                    v.append(("cn/reported-set", f"reported {sorted(rep)} vs enumeration order predicts {sorted(exp)}"))
                else:
                    for f in rep:
                        if abs(rep[f] - exp[f]) > tol:
                            v.append(("cn/score-of-first-explanation", f"{f}: {rep[f]} vs {exp[f]}"))
    elif got:
        v.append(("cn/reported-for-infeasible", f"no admissible assignment, reported {keys}"))
    info = {"n_assignments": len(asg), "best": min((o for o, _, _ in asg), default=None), "expected": len(exp),
            "not_best_explanation": sum(1 for f, s in exp.items() if s > min(by_fold[f]) + tol)}
    return v, info
