"""Reference model of the minor star-allele (refinement) stage.

For a major solution every assignment
    (multiset of minors per called major)  x  (per copy and per site: the single variant carried there, or none)
is enumerated subject to the rules of the property, and the documented objective is
evaluated in closed form.  Variants are plain (pos, op) tuples; tables are
{pos: {op: [quality pairs]}}.  No aldy code is used except the Gene catalogue accessors.
"""
import collections
import itertools

from . import major_ref
from .major_ref import cnt, total, Boundary  # noqa


def evidence_filter(gene, p, obs, cnlist, considered):
    """Documented filter of the minor stage: quality filter, then thresholds; a variant that is
    neither considered nor in an exon/utr/upstream region is dropped."""
    q = major_ref.quality_filtered(p, obs)
    out = {}
    for pos, d in q.items():
        out[pos] = {}
        r = gene.region_at(pos)
        for op, quals in d.items():
            if op != "_" and not ((pos, op) in considered or (r and r[1][0] == "e") or (r and r[1] in ("utr3", "utr5", "up"))):
                continue
            if major_ref.passes(p, q, pos, op, major_ref.position_cn(gene, cnlist, pos)):
                out[pos][op] = quals
    return out


def has_cov(gene, major, pos):
    return major_ref.has_cov(gene, major, pos)


def definition(gene, M, mi):
    a = gene.alleles[M]
    return frozenset((m.pos, m.op) for m in a.func_muts) | frozenset((m.pos, m.op) for m in a.minors[mi].neutral_muts)


def is_core(gene, m):
    x = gene.mutations.get(m)
    return x is not None and x[0] is not None


class Model:
    def __init__(self, gene, p, f, cnlist, major_counts, considered, phases=None, pooled=None):
        self.g, self.p, self.f, self.cnlist = gene, p, f, list(cnlist)
        self._defs = {}
        self.major_counts = dict(major_counts)
        self.considered = sorted(set(considered))
        self.positions = sorted({m[0] for m in self.considered})
        self.bypos = collections.defaultdict(list)
        for m in self.considered:
            self.bypos[m[0]].append(m)
        self.pooled = pooled or [(M, mi) for M in sorted(self.major_counts) for mi in gene.alleles[M].minors]
        self.pcn = {pos: major_ref.position_cn(gene, self.cnlist, pos) for pos in self.positions}
        self.maxmut = {pos: max([self.ncand(M, mi, pos) for M, mi in self.pooled] + [0]) for pos in self.positions}
        self.modes = collections.Counter()
        mut_pos = set(self.positions)
        for rv in (phases or {}).values():
            cc = sorted((k, v) for k, v in rv.items() if k in mut_pos)
            if len(cc) > 1:
                self.modes[tuple(cc)] += 1

    def defn(self, M, mi):
        k = (M, mi)
        if k not in self._defs:
            self._defs[k] = definition(self.g, M, mi)
        return self._defs[k]

    def c(self, pos, op):
        return cnt(self.f, pos, op)

    def scov(self, pos):
        pc = self.pcn[pos]
        return 0 if pc == 0 else max(1, total(self.f, pos)) / pc

    def ncand(self, M, mi, pos):
        d = self.defn(M, mi)
        return sum(1 for m in self.bypos[pos] if (m in d) or has_cov(self.g, M, pos))

    def options(self, M, mi, pos):
        d = self.defn(M, mi)
        o = [None] + [m for m in self.bypos[pos] if has_cov(self.g, M, pos)]
        core = [m for m in d if m[0] == pos and is_core(self.g, m)]
        if core:
            o = [m for m in o if m == core[0]] if len(core) == 1 else []
        return o

    def site_cost(self, copies, pos, chs):
        """Cost of the choices `chs` (one per copy) at site pos, or None if a rule is broken."""
        g, p = self.g, self.p
        s, pcn = self.scov(pos), self.pcn[pos]
        cost = 0.0
        carr = collections.Counter(ch for ch in chs if ch is not None)
        for m in self.bypos[pos]:
            k = carr.get(m, 0)
            n = self.c(pos, m[1])
            if pcn == 0 or n == 0:
                if k > 0:
                    return None
            elif k > n or k < 1:
                return None
            cost += abs((n / s if s > 0 else 0) - k)
        refe = r6 = 0
        any_cand = False
        for (M, mi), ch in zip(copies, chs):
            d = self.defn(M, mi)
            nc = self.ncand(M, mi, pos)
            r6 += nc - (1 if ch is not None else 0)
            if not has_cov(g, M, pos):
                continue
            pres = [m for m in d if m[0] == pos and not m[1].startswith("ins")]
            if pres:
                refe += 1 - (1 if ch == pres[0] else 0)
            else:
                refe += 1 - (1 if (ch is not None and ch not in d and not ch[1].startswith("ins")) else 0)
        cost += abs((self.c(pos, "_") / s if s > 0 else 0) - refe)
        if self.maxmut[pos] > 0:
            if pcn == 0:
                if r6 > 0:
                    return None
            elif r6 > max(pcn, self.c(pos, "_"), self.maxmut[pos]):
                return None
        novel = set()
        for (M, mi), ch in zip(copies, chs):
            d = self.defn(M, mi)
            for m in d:
                if m[0] == pos and ch != m:
                    cost += p.minor_miss
            if ch is not None and ch not in d:
                cost += p.minor_add
                if is_core(g, ch) and ch not in {(x.pos, x.op) for x in g.alleles[M].func_muts}:
                    novel.add(ch)
        cost += p.minor_add / 2 * len(novel)
        return cost

    def phase_lists(self, M, r):
        ps, ng = [], []
        for m in self.considered:
            if m[0] not in r or not has_cov(self.g, M, m[0]):
                continue
            (ps if m[1] == r[m[0]] else ng).append(m)
        return ps, ng

    def phase_cost(self, copies, carried):
        """carried: per copy the set of variants it carries.  None if infeasible."""
        cost = 0.0
        for rr, n in self.modes.items():
            r = dict(rr)
            errs = []
            for ci, (M, mi) in enumerate(copies):
                ps, ng = self.phase_lists(M, r)
                if len(ps) + len(ng) > 1:
                    errs.append(sum(1 for m in ps if m not in carried[ci]) + sum(1 for m in ng if m in carried[ci]))
            if errs:
                cost += self.p.minor_phase * n * min(errs)
            elif any(sum(map(len, self.phase_lists(M, r))) > 1 for M, mi in self.pooled):
                return None
        return cost

    def copy_sets(self):
        groups = []
        for M, k in sorted(self.major_counts.items()):
            groups.append([tuple((M, mi) for mi in combo)
                           for combo in itertools.combinations_with_replacement(sorted(self.g.alleles[M].minors), k)])
        for combo in itertools.product(*groups):
            yield [x for grp in combo for x in grp]

    def enumerate(self, limit=None, slack=5e-3, cap=200000):
        """All admissible assignments with objective <= (limit or optimum) + slack.
        -> (best objective or None, [(objective, copies, per-copy carried tuple)])"""
        results = []
        best = [None]

        def bound():
            if limit is not None:
                return limit + slack
            return None if best[0] is None else best[0] + slack

        for copies in self.copy_sets():
            per_site = []
            feasible = True
            for pos in self.positions:
                opts = [self.options(M, mi, pos) for M, mi in copies]
                alts = []
                for chs in itertools.product(*opts):
                    cst = self.site_cost(copies, pos, chs)
                    if cst is not None:
                        alts.append((cst, chs))
                if not alts:
                    feasible = False
                    break
                alts.sort(key=lambda x: x[0])
                per_site.append(alts)
            if not feasible:
                continue
            mins = [a[0][0] for a in per_site]
            suffix = [0.0] * (len(mins) + 1)
            for i in range(len(mins) - 1, -1, -1):
                suffix[i] = suffix[i + 1] + mins[i]

            def dfs(i, acc, chosen):
                b = bound()
                if b is not None and acc + suffix[i] > b + 1e-12:
                    return
                if i == len(per_site):
                    carried = [frozenset(ch[ci] for ch in chosen if ch[ci] is not None) for ci in range(len(copies))]
                    tot = acc
                    if self.modes:
                        pc = self.phase_cost(copies, carried)
                        if pc is None:
                            return
                        tot += pc
                    b2 = bound()
                    if b2 is not None and tot > b2 + 1e-12:
                        return
                    if best[0] is None or tot < best[0]:
                        best[0] = tot
                    results.append((tot, tuple(copies), tuple(carried)))
                    if len(results) > cap:
                        raise OverflowError("too many optimal assignments")
                    return
                for cst, chs in per_site[i]:
                    dfs(i + 1, acc + cst, chosen + [chs])

            dfs(0, 0.0, [])
        if best[0] is None:
            return None, []
        b = bound()
        return best[0], [r for r in results if r[0] <= b + 1e-12]

    # ------------------------------------------------------------------ read-out
    def readout(self, copies, carried):
        """What aldy reports for an internal assignment: per copy (major, minor, added, missing),
        including the homozygous-variant rule (a considered variant observed at the full copy
        number is shown on every called copy that can carry it)."""
        ncopies = len(self.cnlist)
        out = []
        for (M, mi), car in zip(copies, carried):
            d = self.defn(M, mi)
            missing = sorted(m for m in d if m not in car)
            added = set(m for m in car if m not in d)
            for m in self.considered:
                if m in d or m in car or not has_cov(self.g, M, m[0]):
                    continue
                s = self.scov(m[0])
                obs = self.c(m[0], m[1]) / s if s > 0 else 0
                if abs(obs - ncopies) <= 1e-5:
                    added.add(m)
            out.append((M, mi, tuple(sorted(added)), tuple(missing)))
        return tuple(sorted(out))


def canon_solution(sol):
    """aldy MinorSolution -> comparable tuple."""
    return tuple(sorted((a.major, a.minor, tuple(sorted((m.pos, m.op) for m in a.added)),
                         tuple(sorted((m.pos, m.op) for m in a.missing))) for a in sol.solution))


def judge(model, reported, tol=5e-3, planted=None):
    """reported: list of (score, canon_solution) in the order aldy returned them."""
    g = model.g
    v = []
    want_majors = collections.Counter(model.major_counts)
    f = model.f
    for score, sol in reported:
        got_majors = collections.Counter(M for M, mi, ad, mis in sol)
        if got_majors != want_majors:
            v.append(("minor/major-call-changed", f"refined alleles {dict(got_majors)} do not refine the major solution {dict(want_majors)}"))
            continue
        for M, mi, added, missing in sol:
            if mi not in g.alleles[M].minors:
                v.append(("minor/not-a-minor-of-major", f"{mi} is not a catalogued minor of {M}"))
                continue
            d = definition(g, M, mi)
            for m in missing:
                if is_core(g, m):
                    v.append(("minor/core-dropped", f"{mi}: core variant {m} dropped"))
                if m not in d:
                    v.append(("minor/missing-not-in-definition", f"{mi}: {m}"))
            for m in added:
                if not has_cov(g, M, m[0]):
                    v.append(("minor/added-without-copies", f"{mi}: {m} added but {M} has no gene copy there"))
                if cnt(f, m[0], m[1]) <= 0:
                    v.append(("minor/added-without-reads", f"{mi}: {m} added without filtered support"))
                if m in d:
                    v.append(("minor/added-already-defined", f"{mi}: {m}"))
            carried = (set(d) | set(added)) - set(missing)
            for m in carried:
                if cnt(f, m[0], m[1]) <= 0:
                    v.append(("minor/carried-without-reads", f"{mi}: carries {m} without filtered support"))
            per = collections.Counter(m[0] for m in carried)
            if any(k > 1 for k in per.values()):
                v.append(("minor/two-variants-at-one-site", f"{mi}: {sorted(carried)}"))
        allc = set()
        for M, mi, added, missing in sol:
            allc |= (set(definition(g, M, mi)) | set(added)) - set(missing)
        for m in model.considered:
            if cnt(f, m[0], m[1]) > 0 and model.pcn[m[0]] > 0 and m not in allc:
                v.append(("minor/supported-variant-not-carried", f"considered {m} has filtered support but no allele carries it"))
    try:
        best, asg = model.enumerate(limit=None, slack=tol)
        limit = max((s for s, _ in reported), default=None)
        if best is not None and limit is not None and limit > best + tol:
            _, asg = model.enumerate(limit=limit, slack=tol)
    except OverflowError:
        return v, {"skipped": "too many assignments"}
    info = {"ref_best": best, "n_assignments": len(asg)}
    if best is None:
        if reported:
            v.append(("minor/solution-for-infeasible", f"no admissible assignment exists, reported {reported[:1]}"))
        return v, info
    if not reported:
        v.append(("minor/none-reported", f"reference optimum {best}, nothing reported"))
        return v, info
    gbest = min(s for s, _ in reported)
    if abs(gbest - best) > tol:
        v.append(("minor/score-not-optimal", f"best reported {gbest}, enumerated optimum {best}"))
    outs = collections.defaultdict(list)
    for o, copies, carried in asg:
        outs[model.readout(copies, carried)].append(o)
    for score, sol in reported:
        if sol not in outs:
            v.append(("minor/not-an-admissible-assignment", f"reported {sol} (score {score}) is not the read-out of any admissible assignment scoring <= {limit}+tol"))
        elif not any(abs(o - score) <= tol for o in outs[sol]):
            v.append(("minor/score", f"reported {sol} with score {score}; closed form {sorted(outs[sol])[:3]}"))
    if planted is not None:
        # noise-free evidence: variants reproduced with multiplicity, nothing added, nothing lost
        want = collections.Counter()
        for M, mi in planted:
            want.update(definition(g, M, mi))
        score, sol = reported[0]
        got = collections.Counter()
        for M, mi, added, missing in sol:
            got.update((set(definition(g, M, mi)) | set(added)) - set(missing))
        if got != want or any(ad or mis for _, _, ad, mis in sol):
            v.append(("minor/planted-not-reproduced", f"planted {planted}: reported {sol}"))
        if abs(score) > tol:
            v.append(("minor/planted-nonzero", f"planted {planted}: score {score}"))
    info["optimal_readouts"] = len([k for k, os in outs.items() if min(os) <= best + tol])
    return v, info
