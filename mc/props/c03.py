"""C03 — gene-structure calls are well-formed and optimal.

State kinds
  ("vec", world, max_cn, gap, planted, devs, fsup)   depth vector = exact region copies of a planted
        structure ((pair of complete configurations), k extra default copies) plus additive
        deviations on single (region, gene|pseudogene) cells; fsup = long-read fusion support
  ("user", world, names)                              user-supplied structure lists
  ("default", gene name, build, male)                 genes without copy-number calling
Oracle: mc/ref/cn_ref.py (all internal assignments, closed-form objective).
"""
import itertools

from ..explore import Check, Outcome
from .. import worlds
from ..ref import cn_ref

DELTAS = (0.2, -0.2, 0.5, -0.5)


def world_keys(tier, seed):
    gen = [worlds.WorldSpec(("+", "-"), True, False, 0, "rich"), worlds.WorldSpec(("-", "+"), True, True, 1, "rich")]
    keys = [("toy",), gen[seed % 2]] if tier == "quick" else [("toy",)] + gen + [("shipped", "cyp2a6"), ("shipped", "gstm1")]
    return keys


def planted_structures(gene, tier):
    names = sorted(gene.cn_configs)
    out = []
    haspg = len(gene.regions) > 1
    for pair in itertools.combinations_with_replacement(names, 2):
        for k in range(0, 3 if tier == "quick" else 4):
            # kp extra pseudogene copies; also vectors no admissible structure explains exactly
            # (double deletion next to extra copies): the model must still answer optimally
            for kp in ((0, 1) if haspg else (0,)):
                out.append((pair, k, kp))
    return out


def vector(gene, planted, devs):
    pair, k, kp = planted
    rc = {}
    haspg = len(gene.regions) > 1
    for r in gene.unique_regions:
        c0 = sum(gene.cn_configs[a].cn[0][r] for a in pair) + k * gene.cn_configs["1"].cn[0][r]
        c1 = 0
        if haspg:
            c1 = sum(gene.cn_configs[a].cn[1][r] for a in pair) + k * (gene.cn_configs["1"].cn[1][r] - 1) + kp
        rc[r] = [float(c0), float(c1)]
    for r, g, d in devs:
        rc[r][g] = max(0.0, round(rc[r][g] + d, 6))
    return {r: (a, b) for r, (a, b) in rc.items()}


class C03(Check):
    id = "C03"
    rule = ("non-trivial: more than one structure reported or expected, or the best score differs from the "
            "noise-free score of the planted structure, or a user list is rejected")
    assumptions = [
        "depth evidence is given as region-copy vectors to solve_cn_model (the normalisation that produces them is C07)",
        "score tolerance 1e-4; a structure whose score lies within 1e-4 of the gap bound may or may not be reported",
        "CYP2D6 (0.4 s per solve) only in the thorough tier with 0-1 deviations",
    ]

    def bound(self):
        return 1 if self.tier == "quick" else 2

    def initial_states(self):
        for wk in world_keys(self.tier, self.seed):
            gene = worlds.gene_of(wk, "hg19")
            pls = planted_structures(gene, self.tier)
            for i, planted in enumerate(pls):
                for max_cn in ((3, 4) if self.tier == "quick" else (3, 4, 5, 6)):
                    for gap in (0.0, 0.1, 0.3):
                        if self.tier == "quick" and wk[0] != "toy" and (i % 3 != self.seed % 3):
                            continue
                        yield ("vec", wk, max_cn, gap, planted, (), None)
            # long-read fusion support: every assignment of {0, just below the cut, 1} to the fusions
            fus = sorted(n for n, c in gene.cn_configs.items() if c.kind.name in ("LEFT_FUSION", "RIGHT_FUSION"))
            if fus and (wk[0] == "toy" or self.tier == "thorough"):
                for max_cn in (3, 4):
                    cut = 1 / (2 * max_cn)
                    for vals in itertools.product((0.0, cut - 1e-6, cut, 1.0), repeat=min(len(fus), 3)):
                        fs = tuple(zip(fus, vals))
                        for planted in pls[:: max(1, len(pls) // 6)]:
                            yield ("vec", wk, max_cn, 0.1, planted, (), fs)
            names = sorted(gene.cn_configs) + ["nope"]
            for n in range(1, 4):
                for tup in itertools.product(names, repeat=n):
                    if self.tier == "quick" and n == 3 and wk[0] != "toy":
                        continue
                    yield ("user", wk, tup)
        # user-supplied lists where copy-number calling is unavailable (no structural alleles / exome profile)
        for wk, exome in ((("shipped", "cyp2c19"), False), (("shipped", "g6pd"), False), (("toy",), True)):
            gene = worlds.gene_of(wk, "hg19")
            names = sorted(gene.cn_configs)[:3] + ["nope"]
            for n in range(1, 4):
                for tup in itertools.product(names, repeat=n):
                    yield ("user", wk, tup, exome)
        from .. import repo
        for name in repo.shipped_gene_names():
            if name.startswith("pharma"):
                continue
            for male in (False, True):
                yield ("default", name, "hg19" if self.seed % 2 == 0 or self.tier == "thorough" else "hg38", male)
        if True:      # CYP2D6 (0.4 s per solve): a seed-rotated handful in the quick tier, all pairs in the thorough tier
            wk = ("shipped", "cyp2d6")
            gene = worlds.gene_of(wk, "hg19")
            keep = [c for c in ("1", "5", "13", "61", "68", "141.1001") if c in gene.cn_configs]
            allp = [(pair, k) for pair in itertools.combinations_with_replacement(keep, 2) for k in (0, 1)]
            for i, (pair, k) in enumerate(allp):
                if self.tier == "quick" and i % 6 != self.seed % 6:
                    continue
                yield ("vec", wk, 4, 0.1, (pair, k, 0), (), None)

    def successors(self, st):
        if st[0] != "vec":
            return
        _, wk, max_cn, gap, planted, devs, fs = st
        if fs is not None:
            return
        if self.tier == "quick" and (gap != 0.1 or max_cn != 3 + self.seed % 2):
            return      # quick: deviations only on one (gap, max_cn) slice
        if self.tier == "thorough" and (gap != 0.1 or max_cn > 5):
            return      # thorough: deviations for gap 0.1 and max_cn 3-5 (all gaps / max_cn at depth 0)
        if devs and not (wk == ("toy",) and max_cn == 4):
            return      # second deviation: toy gene, max_cn 4
        if wk == ("shipped", "cyp2d6") and len(devs) >= 1:
            return
        gene = worlds.gene_of(wk, "hg19")
        cells = [(r, g) for r in gene.unique_regions for g in range(len(gene.regions[:2]))]
        last = devs[-1][:2] if devs else None
        for r, g in cells:
            if last and (r, g) <= last:
                continue
            for d in (DELTAS if not devs else (0.5, -0.5)):
                yield (f"{r}/{g}{d:+}", ("vec", wk, max_cn, gap, planted, devs + ((r, g, d),), fs))

    def evaluate(self, st):
        from aldy.profile import Profile
        from aldy import cn
        from aldy.common import AldyException
        from .. import repo

        repo.reset_debug_store()
        if st[0] == "vec":
            _, wk, max_cn, gap, planted, devs, fs = st
            gene = worlds.gene_of(wk, "hg19")
            p = Profile("verif", gap=gap)
            rc = vector(gene, planted, devs)
            fsd = dict(fs) if fs is not None else None
            before = {n: (c.vector, c.kind) for n, c in gene.cn_configs.items()}
            sols = cn.solve_cn_model(gene, p, gene.cn_configs, max_cn, rc, "any", None, fsd)
            got = [(s.score, tuple(sorted(s.solution.elements()))) for s in sols]
            v, info = cn_ref.judge(gene, p, gene.cn_configs, max_cn, rc, gap, got, fsd)
            after = {n: (c.vector, c.kind) for n, c in gene.cn_configs.items()}
            if before != after:
                v.append(("cn/configs-mutated", "solve_cn_model changed the catalogue's configuration table"))
            for s in sols:
                exp_region = [{r: sum(gene.cn_configs[c].cn[gi][r] for c in s.solution.elements()) for r in gene.regions[0]}
                              for gi in range(len(gene.cn_configs["1"].cn))]
                if s.region_cn != exp_region:
                    v.append(("cn/region-cn", f"{dict(s.solution)}: region copy numbers {s.region_cn} != {exp_region}"))
            nontriv = len(got) > 1 or info["expected"] > 1 or bool(devs)
            return Outcome(v, key=(tuple(sorted(g[1] for g in got)), round(min((g[0] for g in got), default=-1), 2)),
                           nontrivial=nontriv, counters={"not_best_explanation": info["not_best_explanation"]},
                           note={"reported": [(round(s, 3), f) for s, f in got], "ref": info})
        if st[0] == "user":
            _, wk, names = st[:3]
            exome = len(st) > 3 and st[3]
            gene = worlds.gene_of(wk, "hg19")
            p = Profile("verif", cn_solution=list(names))
            v = []
            saved = gene.do_copy_number
            if exome:
                gene.do_copy_number = False        # what genotype() does for exome profiles
            try:
                sols = cn.estimate_cn(gene, p, None, "any")
                ok = True
            except AldyException:
                ok, sols = False, []
            finally:
                gene.do_copy_number = saved
            should = all(n in gene.cn_configs for n in names)
            if ok != should:
                v.append(("cn/user-list-acceptance", f"user structure {names}: accepted={ok}, all names known={should}"))
            if ok and should:
                import collections
                if len(sols) != 1 or dict(sols[0].solution) != dict(collections.Counter(names)) or sols[0].score != 0:
                    v.append(("cn/user-list-not-verbatim", f"user structure {names} -> {[dict(s.solution) for s in sols]}"))
            return Outcome(v, key=("user", ok, len(names)), nontrivial=not should)
        _, name, build, male = st
        gene = worlds.gene_of(("shipped", name), build)
        v = []
        if gene.do_copy_number:
            gene = worlds.gene_of(("shipped", name), build)
            saved = gene.do_copy_number
            gene.do_copy_number = False      # what genotype() does for exome profiles
            try:
                sols = cn.estimate_cn(gene, Profile("verif", male=male), None, "any")
            finally:
                gene.do_copy_number = saved
        else:
            sols = cn.estimate_cn(gene, Profile("verif", male=male), None, "any")
        want = 1 if (male and gene.chr in ("X", "Y")) else 2
        if len(sols) != 1 or dict(sols[0].solution) != {"1": want}:
            v.append(("cn/default-copies", f"{name} ({gene.chr}, male={male}): {[dict(s.solution) for s in sols]}, expected {{'1': {want}}}"))
        return Outcome(v, key=("default", want), nontrivial=want == 1)


CHECK = C03
