"""C12 — result files state exactly the reported solutions.

A state is a list of solutions (each a tuple of allele copies (major, minor, added, missing)).
BFS: depth 0 = every single solution of 1..k copies over the copy alphabet of a world;
one transition appends another solution.  Both writers are run; the text is parsed back
with independent parsers and compared with the solutions.
"""
import io
import itertools

from ..explore import Check, Outcome
from .. import worlds, tables


def copy_alphabet(wk, gene, tier):
    """Copies with SNV / MNV / insertion / deletion definitions, plus added and missing variants."""
    out = []
    cat = sorted(gene.mutations)
    core = [m for m in cat if gene.mutations[m][0] is not None]
    silent = [m for m in cat if gene.mutations[m][0] is None]
    names = [M for M in gene.alleles if "#" not in M or tier == "thorough"]
    pick = []
    kinds = set()
    for M in names:
        al = gene.alleles[M]
        ks = set()
        for m in al.func_muts:
            op = m.op
            ks.add("ins" if op.startswith("ins") else "del" if op.startswith("del") else "mnv" if len(op) > 3 else "snv")
        key = (frozenset(ks), al.cn_config != "1")
        if key not in kinds or len(pick) < 4:
            kinds.add(key)
            pick.append(M)
    pick = pick[: (8 if tier == "quick" else 14)]
    # always: the alleles whose indels / MNV touch the first or the last base of the mapped part, and the del-ins
    pick += [M for M in names if M in ("16", "19", "20", "21", "22", "23") and M not in pick]
    for i, M in enumerate(pick):
        for mi in sorted(gene.alleles[M].minors)[: (1 if i > 2 else 2)]:
            defs = tables.allele_variants(gene, M, mi)
            out.append((M, mi, (), ()))
            if i < 3:
                add_c = [m for m in core if m not in defs and gene.has_coverage(M, m[0])]
                add_s = [m for m in silent if m not in defs and gene.has_coverage(M, m[0])]
                mis = sorted(m for m in defs if gene.mutations[m][0] is None)
                if add_s:
                    out.append((M, mi, (add_s[0],), ()))
                if add_c and i == 0:
                    out.append((M, mi, (add_c[-1],), ()))
                if mis:
                    out.append((M, mi, (), (mis[0],)))
    return out


def world_list(tier, seed):
    # "edge" = rich table + del-ins + indels / MNV touching the first and the last base of the mapped part
    gens = [worlds.WorldSpec(("+", "-"), True, False, 0, "edge"), worlds.WorldSpec(("-", "+"), True, True, 1, "edge")]
    # the toy database of the test suite is not used: its variants do not match its own reference
    # sequence, so "REF/ALT spell the variant against the reference" has no meaning there
    if tier == "quick":
        return gens
    return gens + [worlds.WorldSpec(("+", "+"), False, True, 2, "rich"), ("shipped", "cyp2d6"), ("shipped", "cyp2c19")]


def carried(gene, copy):
    M, mi, added, missing = copy
    return (tables.allele_variants(gene, M, mi) | set(added)) - set(missing)


def apply_to_reference(gene, pos0, ref, alt, span):
    """Applies a VCF-style (pos, REF, ALT) to gene[...] over the window span=(lo, hi); returns the
    haplotype string or None if REF does not match the reference."""
    lo, hi = span
    s = gene[lo:hi]
    i = pos0 - lo
    if s[i:i + len(ref)] != ref:
        return None
    return s[:i] + alt + s[i + len(ref):]


def apply_mutation(gene, m, span):
    lo, hi = span
    s = gene[lo:hi]
    pos, op = m
    i = pos - lo
    if ">" in op:
        l, r = op.split(">")
        t = list(s)
        for k in range(len(l)):
            if l[k] != ".":
                if t[i + k] != l[k]:
                    return None
                t[i + k] = r[k]
        return "".join(t)
    if op.startswith("ins"):
        return s[:i + 1] + op[3:] + s[i + 1:]      # inserted after the keyed base
    body = op[3:]
    ins = ""
    if "ins" in body:
        body, ins = body.split("ins")
    if s[i:i + len(body)] != body:
        return None
    return s[:i] + ins + s[i + len(body):]


class C12(Check):
    id = "C12"
    rule = "non-trivial: the list holds two or more solutions, or a copy has added or lost variants, or an indel/MNV is written"
    assumptions = [
        "solutions are constructed directly; coverage gives every catalogued variant a distinct read count so that a swapped coverage column is visible",
        "own parsers (tab-separated decomposition rows; VCF header + records)",
    ]

    def bound(self):
        return 1 if self.tier == "quick" else 2

    def _solutions(self, wk):
        if not hasattr(self, "_sol_cache"):
            self._sol_cache = {}
        if wk not in self._sol_cache:
            self._sol_cache[wk] = self._solutions_uncached(wk)
        return self._sol_cache[wk]

    def _solutions_uncached(self, wk):
        gene = worlds.gene_of(wk, "hg19")
        A = copy_alphabet(wk, gene, self.tier)
        maxc = 2 if self.tier == "quick" else 3
        sols = []
        for k in range(1, maxc + 1):
            for combo in itertools.combinations_with_replacement(A, k):
                if k == 3 and len({c[0] for c in combo}) == 3 and self.tier == "thorough" and hash(combo) % 4:
                    continue
                sols.append(combo)
        return sols

    def initial_states(self):
        for wk in world_list(self.tier, self.seed):
            for s in self._solutions(wk):
                yield (wk, (s,))

    def successors(self, st):
        wk, sols = st
        allsol = self._solutions(wk)
        step = 31
        if self.tier == "quick":
            step = 7
        elif len(sols) >= 2:
            if hash(sols) % 20:
                return
            step = 211
        off = (hash(sols) + self.seed) % step
        for s in allsol[off::step]:
            yield ("+solution", (wk, sols + (s,)))

    def evaluate(self, st):
        import collections
        from aldy.profile import Profile
        from aldy.solutions import SolvedAllele, MinorSolution, MajorSolution, CNSolution
        from aldy.diplotype import estimate_diplotype, write_decomposition, write_vcf, OUTPUT_COLS
        from aldy.gene import Mutation

        wk, sols = st
        gene = worlds.gene_of(wk, "hg19")
        cat = sorted(gene.mutations)
        table = {}
        for i, m in enumerate(cat):
            table.setdefault(m[0], {})[m[1]] = 11 + i
        p = Profile("verif")
        cov = tables.to_coverage(gene, p, table)
        minors = []
        for s in sols:
            sa = [SolvedAllele(gene, M, mi, [Mutation(*m) for m in ad], [Mutation(*m) for m in mis]) for M, mi, ad, mis in s]
            cn = CNSolution(gene, 0, [gene.alleles[M].cn_config for M, _, _, _ in s])
            major = MajorSolution(0, collections.Counter(SolvedAllele(gene, M) for M, _, _, _ in s), cn, [])
            ms = MinorSolution(0, sa, major, profile=p)
            estimate_diplotype(gene, ms)
            minors.append(ms)
        v = []
        # ---------------- decomposition
        for si, (s, ms) in enumerate(zip(sols, minors)):
            buf = io.StringIO()
            write_decomposition("SAMPLE", gene, cov, si + 1, ms, buf)
            rows = [l.split("\t") for l in buf.getvalue().splitlines()]
            want = []
            dip = ms.get_major_diplotype().replace(" ", "")
            mlist = ";".join(c[1] for c in s)
            for ci, c in enumerate(s):
                car = sorted(carried(gene, c))
                if not car:
                    want.append(("SAMPLE", gene.name, str(si + 1), dip, mlist, str(ci), c[1], "", "", "", "", ""))
                for m in car:
                    fn = gene.mutations[m][0]
                    rs = gene.mutations[m][1]
                    want.append(("SAMPLE", gene.name, str(si + 1), dip, mlist, str(ci), c[1], str(m[0]), m[1],
                                 str(table[m[0]][m[1]]), fn if fn else "none", rs))
            got = [tuple(r[:12]) for r in rows]
            if any(len(r) < 12 for r in rows):
                v.append(("decomp/short-row", f"{rows[:2]}"))
            elif sorted(got) != sorted(want):
                extra = sorted(set(got) - set(want))[:2]
                lack = sorted(set(want) - set(got))[:2]
                v.append(("decomp/rows", f"solution {s}: unexpected rows {extra}, missing rows {lack}"))
            elif got != want:
                v.append(("decomp/row-order", f"solution {s}"))
            # round trip: rows -> per-copy variant sets
            back = collections.defaultdict(set)
            for r in rows:
                if len(r) >= 9 and r[7] != "":
                    back[int(r[5])].add((int(r[7]), r[8]))
            for ci, c in enumerate(s):
                if back.get(ci, set()) != carried(gene, c):
                    v.append(("decomp/roundtrip", f"copy {ci} of {s}: parsed {sorted(back.get(ci, set()))}"))
        # ---------------- VCF
        buf = io.StringIO()
        write_vcf("SAMPLE", gene, cov, minors, buf)
        lines = buf.getvalue().splitlines()
        hdr = [l for l in lines if l.startswith("#CHROM")]
        recs = [l.split("\t") for l in lines if not l.startswith("#")]
        if len(hdr) != 1 or len(hdr[0].split("\t")) != 9 + len(sols):
            v.append(("vcf/sample-columns", f"{len(sols)} solutions, header {hdr}"))
        else:
            cols = hdr[0].split("\t")[9:]
            for si, (c, ms) in enumerate(zip(cols, minors)):
                if c != f"SAMPLE:{si}:{ms.get_major_diplotype().replace(' ', '')}":
                    v.append(("vcf/sample-name", f"{c}"))
        union = set()
        for s in sols:
            for c in s:
                union |= carried(gene, c)
        seen = {}
        indel_or_mnv = False
        lo, hi = gene._lookup_range
        for r in recs:
            if len(r) != 9 + len(sols):
                v.append(("vcf/record-width", f"{r[:5]}"))
                continue
            chrom, pos1, rid, ref, alt = r[:5]
            # identify the variant this record spells
            cands = []
            for m in cat:
                if abs(m[0] + 1 - int(pos1)) > 1:
                    continue
                span = (max(lo, m[0] - 20), min(hi, m[0] + 40))
                a = apply_mutation(gene, m, span)
                b = apply_to_reference(gene, int(pos1) - 1, ref, alt, span)
                if a is not None and b is not None and a == b and a != gene[span[0]:span[1]]:
                    cands.append(m)
            byid = [m for m in cat if gene.mutations[m][1] == rid and rid != "-"]
            target = None
            for m in cands:
                if not byid or m in byid:
                    target = m
            if target is None:
                who = byid[:1] or [m for m in cat if m[0] + 1 == int(pos1)][:1]
                kind = "indel-or-mnv" if (len(ref) != 1 or len(alt) != 1 or (who and len(who[0][1]) != 3)) else "snv"
                v.append((f"vcf/ref-alt/{kind}", f"record POS={pos1} ID={rid} REF={ref} ALT={alt} does not spell {who} against the reference"))
                continue
            if chrom != gene.chr:
                v.append(("vcf/chrom", chrom))
            if len(target[1]) != 3:
                indel_or_mnv = True
            seen[target] = r
            fmt = r[8].split(":")
            for si, s in enumerate(sols):
                fields = dict(zip(fmt, r[9 + si].split(":")))
                gt = fields.get("GT", "").split("|")
                want_gt = ["1" if target in carried(gene, c) else "0" for c in s]
                if gt != want_gt:
                    buggy = []
                    for ci in range(len(s)):
                        hit = False
                        for s2 in sols:
                            if ci < len(s2):
                                M, mi, ad, mis = s2[ci]
                                if target in (tables.allele_variants(gene, M, mi) | set(ad)):
                                    hit = True
                        buggy.append("1" if hit else "0")
                    if gt == buggy:
                        v.append(("vcf/gt/OR-over-solutions-ignoring-lost", f"{target} solution {si}: GT {gt}, this solution carries {want_gt}"))
                    else:
                        v.append(("vcf/gt/wrong", f"{target} solution {si}: GT {gt}, expected {want_gt}"))
                    continue
                ma = fields.get("MA", "").split(",")
                mi_ = fields.get("MI", "").split(",")
                wma = [f"*{c[0]}" if g == "1" else "-" for c, g in zip(s, want_gt)]
                wmi = [f"*{c[1]}" if g == "1" else "-" for c, g in zip(s, want_gt)]
                if ma != wma or mi_ != wmi:
                    v.append(("vcf/ma-mi", f"{target} solution {si}: MA {ma} MI {mi_}, expected {wma} {wmi}"))
                if fields.get("DP") != str(table[target[0]][target[1]]):
                    v.append(("vcf/dp", f"{target}: DP {fields.get('DP')} vs {table[target[0]][target[1]]}"))
        lost_only = set()
        for s in sols:
            for c in s:
                lost_only |= set(c[3])
        for m in union:
            if m not in seen:
                v.append(("vcf/variant-not-written", f"{m} is carried by a solution but has no record"))
        for m in seen:
            if m not in union:
                sig = "vcf/gt/OR-over-solutions-ignoring-lost" if m in lost_only else "vcf/record-for-uncarried-variant"
                v.append((sig, f"{m} has a record but no copy carries it"))
        nontriv = len(sols) > 1 or any(c[2] or c[3] for s in sols for c in s) or indel_or_mnv
        return Outcome(v, key=(len(sols), len(recs), tuple(len(s) for s in sols)), nontrivial=nontriv,
                       note={"solutions": [[c[1] for c in s] for s in sols], "vcf_records": len(recs)})


CHECK = C12
