"""C07 — copy-number signal is depth-normalised: a two-copy reference reads as 2.0.

State = (world, build, planted components, awkward-read set, neutral-region choice, profile
source, transformation).  Depth 0: untransformed samples (oracle: self-profile = 2.0, and
the profile/sample pair gives finite values).  One transition applies a transformation:
every read duplicated k times, only gene-locus reads k times, neutral reads removed.
"""
import os

from ..explore import Check, Outcome
from .. import worlds, simreads

STRUCTS = (
    (("normal", "1.001"), ("normal", "1.001")),
    (("normal", "2.001"), ("del", None)),
    (("normal", "1.001"), ("normal", "1.002"), ("extra", "2.001")),
    (("left:e2", "1.001"), ("normal", "1.001")),
    (("right:e3", "1.001"), ("normal", "2.001"), ("extra", "1.001")),
)


def awkward(world, build, G, setid):
    """Extra reads with deletions, insertions, soft clips, =/X runs, some straddling a region or
    neutral-region border."""
    if setid == 0:
        return []
    out = []
    n0 = worlds.OFFS[build][2] - 1
    g0 = world.offs(build)[0] - 1
    border = world.region_range(build, "e1")[1]      # a region border inside the gene

    def rd(name, pos, cigar, fill="G"):
        seq = []
        r = pos
        from ..ref.pileup_ref import parse_cigar
        for op, n in parse_cigar(cigar):
            if op in "M=":
                seq.append(G[r:r + n]); r += n
            elif op == "X":
                seq.append("".join(worlds.COMP[c] for c in G[r:r + n])); r += n
            elif op == "D":
                r += n
            elif op in "IS":
                seq.append(fill * n)
        return (name, pos, "".join(seq), cigar)

    if setid in (1, 3):
        out += [rd("aw_n_del", n0 + 40, "20M3D27M"), rd("aw_n_ins", n0 + 100, "25M2I23M"),
                rd("aw_n_soft", n0 + 150, "6S44M"), rd("aw_n_eqx", n0 + 200, "20=1X29="),
                rd("aw_n_left", n0 - 20, "50M"), rd("aw_n_right", n0 + worlds.NEUTRAL_LEN - 25, "50M"),
                rd("aw_n_delborder", n0 - 10, "8M4D42M"),
                rd("aw_n_spanning", n0 - 40, f"{worlds.NEUTRAL_LEN + 80}M")]
    if setid in (2, 3):
        out += [rd("aw_g_del", g0 + 120, "20M3D27M"), rd("aw_g_ins", g0 + 220, "25M2I23M"),
                rd("aw_g_soft", g0 + 320, "44M6S"), rd("aw_g_eqx", g0 + 420, "10=2X38="),
                rd("aw_g_border", border - 25, "50M"), rd("aw_g_delborder", border - 10, "8M5D37M"),
                rd("aw_g_edge", g0 - 30, "50M")]
        if not world.spec.pseudo:
            out += [rd("aw_g_spanning", g0 - 40, f"{world.glen() + 80}M")]
        else:
            p0 = world.offs(build)[1] - 1       # the pseudogene lies outside the RefSeq-mapped part
            out += [rd("aw_p_del", p0 + 130, "20M3D27M"), rd("aw_p_del2", p0 + 133, "25M2D23M"), rd("aw_p_ins", p0 + 330, "25M2I23M"),
                    rd("aw_p_x", p0 + 430, "20=2X28="), rd("aw_p_edge", p0 - 25, "50M")]
    return out


def neutral_choice(world, build, k):
    from aldy.common import GRange
    n0 = worlds.OFFS[build][2] - 1
    return [GRange("7", n0, n0 + worlds.NEUTRAL_LEN), GRange("7", n0 + 50, n0 + 300), GRange("7", n0 - 100, n0 + 150)][k]


class C07(Check):
    id = "C07"
    rule = "non-trivial: a transformation is applied, or the sample contains awkward reads, or the structure is not two plain copies"
    assumptions = [
        "reads come from the perfect-aligner simulator plus a menu of awkward alignments; duplicated reads get new names",
        "relative tolerance 1e-9 for invariance / linear scaling, absolute 1e-9 for the self-profile value 2.0",
        "a profile file is produced with Profile.get_sam_profile_data + yaml.dump as the profile command does, with this gene's regions passed explicitly",
    ]

    def bound(self):
        return 1

    def specs(self):
        a = [worlds.WorldSpec(("+", "-"), True, False, 0, "small"), worlds.WorldSpec(("-", "+"), False, True, 1, "small"),
             worlds.WorldSpec(("+", "-"), True, True, 1, "small", "pfirst")]     # pseudogene upstream of the gene
        if self.tier == "thorough":
            a += [worlds.WorldSpec(("-", "-"), True, True, 2, "small"), worlds.WorldSpec(("+", "-"), True, False, 0, "rich")]
        return a

    def initial_states(self):
        import itertools
        # the shipped 'illumina' profile (uniform coverage by definition) with the default and with custom
        # neutral regions, loaded one after the other in one process: a uniform two-copy sample reads 2.0 each time
        for r in (1, 2, 3):
            for perm in itertools.permutations((None, "R1", "R2"), r):
                yield ("illumina", perm)
        n = 0
        for spec in self.specs():
            for build in ("hg19", "hg38"):
                for si, comps in enumerate(STRUCTS):
                    if not spec.pseudo and any(k.startswith(("left", "right")) for k, _ in comps):
                        continue
                    for aw in (0, 1, 2, 3):
                        for nc in (0, 1, 2):
                            for src in ("bam", "yaml"):
                                n += 1
                                if self.tier == "quick" and not (aw in (0, 3) and (nc == 0 or (n + self.seed) % 3 == 0) and (src == "bam" or si < 2)):
                                    continue
                                if self.tier == "quick" and build == "hg38" and si > 1:
                                    continue
                                yield (spec, build, si, aw, nc, src, None)

    def successors(self, st):
        if st[0] == "illumina":
            return
        spec, build, si, aw, nc, src, tr = st
        if tr is not None:
            return
        ks = (2, 3, 5) if self.tier == "quick" else (2, 3, 4, 5)
        if self.tier == "quick" and (aw == 0 and nc != 0):
            ks = (2,)
        for k in ks:
            yield (f"all x{k}", (spec, build, si, aw, nc, src, ("all", k)))
            yield (f"gene x{k}", (spec, build, si, aw, nc, src, ("gene", k)))
        yield ("self-profile", (spec, build, si, aw, nc, src, ("self", 0)))
        yield ("no-neutral", (spec, build, si, aw, nc, src, ("noneutral", 0)))

    def evaluate(self, st):
        import yaml
        from aldy.profile import Profile
        from aldy.sam import Sample
        from aldy.common import AldyException
        from aldy import cn as cnmod

        if st[0] == "illumina":
            return self._eval_illumina(st)
        spec, build, si, aw, nc, src, tr = st
        w = worlds.world(spec)
        gene = worlds.gene_of(spec, build)
        sim = simreads.Simulator(w, build)
        d = worlds.tmpdir()
        pid = os.getpid()
        neutral = neutral_choice(w, build, nc)
        extra = awkward(w, build, sim.G, aw)
        base = sim.sample_reads(list(STRUCTS[si]), rl=100, depth=10) + extra
        prof_reads = sim.profile_reads(rl=100, depth=10) + extra

        def is_neutral(r):
            n0 = worlds.OFFS[build][2] - 1
            return n0 - 400 <= r[1] <= n0 + worlds.NEUTRAL_LEN + 400

        def load_profile(reads, tag):
            pb = os.path.join(d, f"c07p_{pid}_{tag}.bam")
            simreads.write_bam(pb, reads)
            if src == "bam":
                return Profile.load(gene, pb, neutral)
            regions = {(gene.name, r, gi): rng for gi, gr in enumerate(gene.regions) for r, rng in gr.items()}
            data = Profile.get_sam_profile_data(pb, regions=regions, cn_region=neutral, genome=build)
            py = os.path.join(d, f"c07p_{pid}_{tag}.yml")
            with open(py, "w") as f:
                f.write(yaml.dump(data, default_flow_style=None))
            return Profile.load(gene, py, None)

        def cov_of(reads, profile, tag):
            sb = os.path.join(d, f"c07s_{pid}_{tag}.bam")
            simreads.write_bam(sb, reads)
            sm = Sample(gene, profile, sb)
            return {(gi, r): sm.coverage.region_coverage(gi, r) for gi, gr in enumerate(gene.regions) for r in gr}, sm

        v = []
        prof = load_profile(prof_reads, "p")
        try:
            c0, sm0 = cov_of(base, prof, "a")
        except AldyException as ex:
            return Outcome([("norm/base-sample-rejected", str(ex))], key=("rejected",))
        key = None
        if tr is None:
            # the profile sample against its own profile reads exactly 2.0
            cs, _ = cov_of(prof_reads, prof, "b")
            for k, val in cs.items():
                pv = prof.data[gene.name][k[1]][k[0]]
                if pv != 0 and abs(val - 2.0) > 1e-9:
                    v.append(("norm/self-profile-not-2", f"region {k}: {val} (profile from {src}, neutral {neutral})"))
            key = ("base", tuple(round(x, 3) for x in list(c0.values())[:7]))
        else:
            kind, k = tr

            def dup(reads, times, pred):
                out = []
                for r in reads:
                    out.append(r)
                    if pred(r):
                        for j in range(1, times):
                            out.append((f"{r[0]}_d{j}",) + tuple(r[1:]))
                return out

            if kind == "all":
                c1, sm1 = cov_of(dup(base, k, lambda r: True), prof, "c")
                for kk in c0:
                    if abs(c1[kk] - c0[kk]) > 1e-9 * max(1, abs(c0[kk])):
                        v.append(("norm/depth-dependent", f"every read x{k}: region {kk} {c0[kk]} -> {c1[kk]}"))
                s0 = sorted((round(s.score, 6), tuple(sorted(s.solution.items()))) for s in cnmod.estimate_cn(gene, prof, sm0.coverage, "any"))
                s1 = sorted((round(s.score, 6), tuple(sorted(s.solution.items()))) for s in cnmod.estimate_cn(gene, prof, sm1.coverage, "any"))
                if s0 != s1:
                    v.append(("norm/structure-depends-on-depth", f"x{k}: {s0} -> {s1}"))
                key = ("all", k, tuple(x[1] for x in s0))
            elif kind == "gene":
                c1, _ = cov_of(dup(base, k, lambda r: not is_neutral(r)), prof, "c")
                for kk in c0:
                    if abs(c1[kk] - k * c0[kk]) > 1e-9 * max(1, abs(k * c0[kk])):
                        v.append(("norm/not-linear-in-gene-reads", f"gene reads x{k}: region {kk} {c0[kk]} -> {c1[kk]}"))
                key = ("gene", k)
            elif kind == "self":
                sp = load_profile(base, "q")
                cs, _ = cov_of(base, sp, "c")
                for kk, val in cs.items():
                    pv = sp.data[gene.name][kk[1]][kk[0]]
                    if pv != 0 and abs(val - 2.0) > 1e-9:
                        v.append(("norm/self-profile-not-2", f"sample as its own profile: region {kk} = {val}"))
                    if pv == 0 and val != 0:
                        v.append(("norm/uncovered-region-nonzero", f"{kk}: {val}"))
                key = ("self",)
            else:
                try:
                    cov_of([r for r in base if not is_neutral(r)], prof, "c")
                    v.append(("norm/empty-neutral-accepted", "a sample without reads in the neutral region was normalised"))
                    key = ("noneutral", "accepted")
                except AldyException:
                    key = ("noneutral", "rejected")
        return Outcome(v, key=key, nontrivial=tr is not None or aw > 0 or si > 0,
                       note={"structure": [c[0] for c in STRUCTS[si]], "awkward": aw, "neutral": str(neutral), "profile": src, "transformation": tr})


def _eval_illumina(self, st):
    from aldy.profile import Profile
    from aldy.sam import Sample
    from .c14 import nat2_files

    P = {"dir": worlds.tmpdir()}
    path, regs = nat2_files(P)
    gene = worlds.gene_of(("shipped", "nat2"), "hg19")
    v = []
    vals = []
    for rk in st[1]:
        prof = Profile.load(gene, "illumina", regs[rk] if rk else None)
        sm = Sample(gene, prof, path)
        for (gi, r), val in sm.coverage._region_coverage.items():
            rng = gene.regions[gi][r]
            if rng.end - rng.start > 120 and abs(val - 2.0) > 0.02:
                v.append(("norm/illumina-profile-not-2", f"neutral regions loaded in the order {st[1]}: with {rk or 'the default region'} region {r} reads {val:.3f}"))
                break
        vals.append(round(sm.coverage._region_coverage[(0, "e2")] if (0, "e2") in sm.coverage._region_coverage else 0, 3))
    return Outcome(v, key=("illumina", tuple(vals)), nontrivial=len(st[1]) > 1, note={"order": st[1], "e2_depth": vals})


C07._eval_illumina = _eval_illumina
CHECK = C07
