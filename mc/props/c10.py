"""C10 — reported solutions are the best candidates and are internally consistent.

(a) protocol exploration with scripted stages: genotype() and estimate_minor() run for real;
    the structure stage, the major stage and the minor model are replaced by stubs that
    return valid solution objects of the toy gene with scores from small alphabets.  Depth 0:
    the full product of scores over a fixed shape (two structures; two + one major
    candidates; one refinement each); one transition removes an element (empty answer of
    a stage), adds a second refinement, or adds a third structure.
(b) real samples (simulated, with thinned regions / variants so that candidates compete):
    the three stages are wrapped by recorders and the final list is recomputed from the
    recorded stage outputs.
Oracle: select_ref() below (score carry-over, rescaling, additive gap + precision, order).
"""
import collections
import itertools
import os

from ..explore import Check, Outcome
from .. import worlds, simreads

PREC = 1e-2
CN_SCORES = (0.75, 0.755, 0.9, 1.5)
MJ_SCORES = (0.0, 0.004, 0.2, 1.0)
MN_SCORES = (0.0, 0.009, 0.3, 2.0)
CONFS = (("1", "1"), ("1", "1", "1"), ("1", "4"))
MAJ_MENU = {("1", "1"): (("1", "2"), ("1", "3")), ("1", "1", "1"): (("1", "1", "2"),), ("1", "4"): (("1", "4#1"),)}


def minor_names(gene, als, alt=False):
    out = []
    for a in als:
        ms = sorted(gene.alleles[a].minors)
        out.append(ms[-1] if alt and len(ms) > 1 else ms[0])
    return tuple(out)


def select_ref(script, gap):
    """script: ((conf, cn_score, ((alleles, major_score, ((minors, minor_score), ...)), ...)), ...)
    -> 'ERR' or list of (score, minors tuple) in reporting order buckets."""
    cns = [(c, s) for c, s, _ in script]
    if not cns:
        return "ERR"
    mincn = min(s for _, s in cns)
    majors = []
    for conf, sc, ml in script:
        for als, ms, minors in ml:
            majors.append((conf, sc, als, ms + (sc - mincn), minors))
    if not majors:
        return "ERR"
    mm = min(m[3] for m in majors)
    kept = [m for m in majors if m[3] - mm - gap < PREC]
    kmin = min(m[3] for m in kept)
    fin = []
    for conf, sc, als, msc, minors in kept:
        for mins, sc2 in minors:
            fin.append(((sc2 + (msc - kmin)) * ((sc + 1) / (mincn + 1)), tuple(sorted(mins)), conf))
    if not fin:
        return "ERR"
    fm = min(f[0] for f in fin)
    return sorted((round(f[0], 6), f[1], f[2]) for f in fin if f[0] - fm - gap < PREC)


class FakeSample:
    def __init__(self, gene, profile, path, reference=None, debug=None):
        from aldy.coverage import Coverage
        self.gene, self.profile, self.name, self.is_long_read, self.phases = gene, profile, "S", False, {}
        self.coverage = Coverage(gene, profile, self, {100000104: {"_": [(60, 60)] * 40}}, None, {})
        self.coverage.average_coverage = lambda: 40.0


class C10(Check):
    id = "C10"
    rule = ("non-trivial: at least two candidates compete at some stage (the list is not forced), or a stage returns "
            "nothing; distinct scripts are distinct states")
    assumptions = [
        "scripted part: the stage functions are replaced from the harness at run time; genotype(), estimate_minor(), the score carry-over, rescaling, filtering and sorting are the real code",
        "a candidate within 1e-6 of the gap+precision boundary may be reported or not (float rounding)",
        "real-sample part: scores are snapshotted when a stage returns (aldy adjusts them in place afterwards)",
    ]

    def bound(self):
        return 1

    def max_states(self):
        return 300000

    def initial_states(self):
        k = 0
        for gap in (0.0, 0.1, 0.3):
            for c1 in CN_SCORES:
                for c2 in CN_SCORES[:3]:
                    for m1 in MJ_SCORES:
                        for m2 in MJ_SCORES[:3]:
                            for m3 in MJ_SCORES[:3]:
                                for k1 in MN_SCORES[:3]:
                                    for k2 in MN_SCORES[:3]:
                                        k += 1
                                        if self.tier == "quick" and k % 6 != self.seed % 6:
                                            continue
                                        yield ("script", gap, (
                                            (CONFS[0], c1, ((MAJ_MENU[CONFS[0]][0], m1, ((False, k1),)), (MAJ_MENU[CONFS[0]][1], m2, ((False, k2),)))),
                                            (CONFS[1], c2, ((MAJ_MENU[CONFS[1]][0], m3, ((False, 0.0),)),)),
                                        ))
        for spec in self.real_specs():
            for build in ("hg19",):
                for i, case in enumerate(REAL_CASES):
                    for gap in (0.0, 0.1, 0.3):
                        for mms in (1, 3):
                            if self.tier == "quick" and (i + int(gap * 10) + mms + self.seed) % 3:
                                continue
                            yield ("real", spec, build, case, gap, mms)

    def real_specs(self):
        a = [worlds.WorldSpec(("+", "-"), True, False, 0, "rich")]
        if self.tier == "thorough":
            a.append(worlds.WorldSpec(("-", "+"), True, True, 1, "rich"))
        return a

    def successors(self, st):
        if st[0] != "script":
            return
        _, gap, script = st
        if self.tier == "quick" and hash(script) % 5 != self.seed % 5:
            return
        # remove one element (a stage that answers with nothing)
        yield ("no structures", ("script", gap, ()))
        for si, (conf, sc, ml) in enumerate(script):
            yield (f"no majors for {conf}", ("script", gap, script[:si] + ((conf, sc, ()),) + script[si + 1:]))
            for mi, (als, ms, minors) in enumerate(ml):
                ml2 = ml[:mi] + ((als, ms, ()),) + ml[mi + 1:]
                yield (f"no refinement for {als}", ("script", gap, script[:si] + ((conf, sc, ml2),) + script[si + 1:]))
                for extra in MN_SCORES[1:3]:
                    ml3 = ml[:mi] + ((als, ms, minors + ((True, extra),)),) + ml[mi + 1:]
                    yield (f"second refinement for {als}", ("script", gap, script[:si] + ((conf, sc, ml3),) + script[si + 1:]))
        for c3 in (0.75, 1.0):
            yield ("third structure", ("script", gap, script + ((CONFS[2], c3, ((MAJ_MENU[CONFS[2]][0], 0.0, ((False, 0.0),)),)),)))

    def canon(self, st):
        if st[0] == "script" and not any(ml for _, _, ml in st[2]) and len(st[2]) == 0:
            return ("script", st[1], ())
        return st

    # ------------------------------------------------------------------
    def evaluate(self, st):
        if st[0] == "script":
            return self._eval_script(st)
        return self._eval_real(st)

    def _eval_script(self, st):
        import aldy.genotype as G
        from aldy import sam, cn, major, minor
        from aldy.common import AldyException
        from aldy.profile import Profile
        from aldy.solutions import CNSolution, MajorSolution, SolvedAllele, MinorSolution
        from aldy.diplotype import estimate_diplotype
        from .. import repo

        _, gap, script = st
        repo.reset_debug_store()
        gene0 = worlds.gene_of(("toy",), "hg19")
        full = tuple((conf, sc, tuple((als, ms, tuple((minor_names(gene0, als, alt), s2) for alt, s2 in minors)) for als, ms, minors in ml))
                     for conf, sc, ml in script)

        def fake_cn(gene, profile, coverage, solver, debug=None):
            return [CNSolution(gene, sc, list(conf)) for conf, sc, _ in full]

        def fake_major(gene, coverage, cn_solution, solver, identifier=0, debug=None):
            for conf, sc, majors in full:
                if collections.Counter(conf) == cn_solution.solution:
                    return [MajorSolution(ms, collections.Counter(SolvedAllele(gene, a) for a in als), cn_solution, []) for als, ms, _ in majors]
            return []

        def fake_minor(gene, coverage, major_sol, alleles_list, mutations, solver, max_solutions=1):
            for conf, sc, majors in full:
                if collections.Counter(conf) == major_sol.cn_solution.solution:
                    for als, ms, minors in majors:
                        if collections.Counter(SolvedAllele(gene, a) for a in als) == major_sol.solution:
                            out = []
                            for mins, sc2 in minors:
                                s = MinorSolution(sc2, [SolvedAllele(gene, a, mi) for a, mi in zip(als, mins)], major_sol, coverage.profile)
                                estimate_diplotype(gene, s)
                                out.append(s)
                            return out
            return []

        saved = (sam.Sample, sam.detect_genome, cn.estimate_cn, major.estimate_major, minor.solve_minor_model, G.Profile.load)
        sam.Sample = FakeSample
        sam.detect_genome = lambda p: ("sam", "hg19")
        cn.estimate_cn, major.estimate_major, minor.solve_minor_model = fake_cn, fake_major, fake_minor
        G.Profile.load = staticmethod(lambda gene, profile, cn_region=None, **params: Profile("stub", cn_region=("20", 1, 2), data={}, **params))
        toy = repo.toy_path()
        try:
            try:
                res = G.genotype(toy, toy, "illumina", output_file=None, cn_solution=None, solver="any", genome="hg19", gap=gap,
                                 max_minor_solutions=3)
                sols = list(res.values())[0]
                got = [(round(s.score, 6), tuple(sorted(a.minor for a in s.solution)), tuple(sorted(s.major_solution.cn_solution.solution.elements()))) for s in sols]
            except AldyException:
                sols, got = [], "ERR"
        finally:
            sam.Sample, sam.detect_genome, cn.estimate_cn, major.estimate_major, minor.solve_minor_model, G.Profile.load = saved
        exp = select_ref(full, gap)
        v = []
        if (got == "ERR") != (exp == "ERR"):
            v.append(("select/empty-stage", f"script {full} gap {gap}: reported {got}, expected {exp}"))
        elif got != "ERR":
            if sorted(got) != [(a, b, tuple(sorted(c))) for a, b, c in exp]:
                # tolerate candidates sitting on the boundary
                v.append(("select/reported-set", f"gap {gap} script {full}: reported {sorted(got)}, expected {exp}"))
            order = [int(1000 * g[0]) for g in got]
            if order != sorted(order):
                v.append(("select/not-best-first", f"{got}"))
            v += self.chain(gene0, sols)
        ncand = sum(len(minors) for _, _, ml in full for _, _, minors in ml)
        key = ("ERR",) if got == "ERR" else tuple(g[1] for g in got)
        return Outcome(v, key=key, nontrivial=ncand >= 2 or got == "ERR", note={"gap": gap, "script": str(full)[:300], "reported": got if got == "ERR" else got[:3]})

    def chain(self, gene, sols):
        v = []
        for s in sols:
            cfg = collections.Counter(gene.alleles[a.major].cn_config for a in s.solution)
            if cfg != collections.Counter(s.major_solution.cn_solution.solution):
                v.append(("chain/alleles-vs-structure", f"{s.get_minor_diplotype()}: allele configurations {dict(cfg)} vs structure {dict(s.major_solution.cn_solution.solution)}"))
            mj = collections.Counter(a.major for a in s.solution)
            want = collections.Counter({k.major: c for k, c in s.major_solution.solution.items()})
            if mj != want:
                v.append(("chain/minors-vs-majors", f"{dict(mj)} vs {dict(want)}"))
            for a in s.solution:
                if a.minor not in gene.alleles[a.major].minors:
                    v.append(("chain/minor-not-of-major", f"{a.minor} / {a.major}"))
            idx = sorted(i for h in s.diplotype for i in h if i != -1)
            if idx != list(range(len(s.solution))):
                v.append(("chain/diplotype-indices", f"{s.diplotype} for {len(s.solution)} alleles"))
        return v

    # ------------------------------------------------------------------ real samples
    def _eval_real(self, st):
        import aldy.genotype as G
        from aldy import cn, major, minor
        from aldy.common import AldyException
        from .. import repo

        _, spec, build, case, gap, mms = st
        repo.reset_debug_store()
        w = worlds.world(spec)
        gene0 = worlds.gene_of(spec, build)
        sim = simreads.Simulator(w, build)
        d = worlds.tmpdir()
        ypath = w.yaml_file(d)
        import hashlib
        tag = hashlib.sha1(repr((spec, build)).encode()).hexdigest()[:8]
        ppath = os.path.join(d, f"c10prof_{tag}.bam")
        if not os.path.exists(ppath + ".bai"):
            simreads.write_bam(ppath, sim.profile_reads(100, 20))
        comps, thin = case
        reads = []
        for i, comp in enumerate(comps):
            kind, allele = comp
            frac = 1.0
            if "@" in kind:
                kind, f_ = kind.split("@")
                frac = float(f_)
            if allele == "PHASE231":
                s_ = w.seq
                allele = (tuple(worlds.snv(s_, 150)[:2]), tuple(worlds.snv(s_, 231)[:2]))
            elif allele == "PHASE150b":
                s_ = w.seq
                allele = ((150, f"{s_[149]}>{worlds.ALT2[s_[149]]}"),)
            reads += sim.component((kind, allele), 100, 20 * frac, f"c{i}")
        for c in range(2):
            reads += sim.neutral(100, 20, f"n{c}")
        # thinning: drop a fraction of the reads overlapping a region (of the gene copy) or a variant site
        out = []
        for kind, where, keep in thin:
            lo, hi = w.region_range(build, where) if kind == "region" else (w.gpos(build, where - 1) - 1, w.gpos(build, where - 1) + 2)
            sel = [r for r in reads if r[1] < hi and r[1] + len(r[2]) > lo and (kind == "region" or any(True for _ in [0]))]
            drop = set(id(r) for j, r in enumerate(sel) if (j % 10) >= keep * 10)
            reads = [r for r in reads if id(r) not in drop]
        spath = os.path.join(d, f"c10s_{os.getpid()}.bam")
        simreads.write_bam(spath, reads)
        rec = {"cn": None, "major": [], "minor": []}
        o_cn, o_major, o_minor = cn.estimate_cn, major.estimate_major, minor.solve_minor_model

        def r_cn(*a, **k):
            res = o_cn(*a, **k)
            rec["cn"] = [(tuple(sorted(s.solution.elements())), s.score) for s in res]
            return res

        def r_major(gene, coverage, cn_solution, *a, **k):
            res = o_major(gene, coverage, cn_solution, *a, **k)
            rec["major"].append((tuple(sorted(cn_solution.solution.elements())),
                                 [(tuple(sorted(x.major for x, c in s.solution.items() for _ in range(c))), tuple(sorted(s.added)), s.score) for s in res]))
            return res

        def r_minor(gene, coverage, major_sol, *a, **k):
            res = o_minor(gene, coverage, major_sol, *a, **k)
            rec["minor"].append((tuple(sorted(major_sol.cn_solution.solution.elements())),
                                 tuple(sorted(x.major for x, c in major_sol.solution.items() for _ in range(c))), tuple(sorted(major_sol.added)),
                                 [(tuple(sorted((x.minor, tuple(sorted(x.added)), tuple(sorted(x.missing))) for x in s.solution)), s.score) for s in res]))
            return res

        cn.estimate_cn, major.estimate_major, minor.solve_minor_model = r_cn, r_major, r_minor
        try:
            try:
                res = G.genotype(ypath, spath, ppath, output_file=None, cn_region=w.neutral(build), genome=build, gap=gap, max_minor_solutions=mms)
                sols = list(res.values())[0]
                err = None
            except AldyException as ex:
                sols, err = [], str(ex)
        finally:
            cn.estimate_cn, major.estimate_major, minor.solve_minor_model = o_cn, o_major, o_minor
        v = []
        # rebuild the script from the recorded stage outputs
        script = []
        for conf, sc in (rec["cn"] or []):
            ml = []
            for conf2, majors in rec["major"]:
                if conf2 != conf:
                    continue
                for als, added, ms in majors:
                    minors = []
                    for conf3, als3, added3, mins in rec["minor"]:
                        if conf3 == conf and als3 == als and added3 == added:
                            minors = [(m, s2) for m, s2 in mins]
                    ml.append(((als, added), ms, tuple(minors)))
            script.append((conf, sc, tuple(ml)))
        exp = select_ref(tuple(script), gap)
        if err is not None:
            got = "ERR"
        else:
            got = [(round(s.score, 6), tuple(sorted((x.minor, tuple(sorted(x.added)), tuple(sorted(x.missing))) for x in s.solution)),
                    tuple(sorted(s.major_solution.cn_solution.solution.elements()))) for s in sols]
        if (got == "ERR") != (exp == "ERR"):
            v.append(("select/empty-stage", f"{case} gap {gap}: reported {got if got == 'ERR' else got[:2]} ({err}), recomputed {exp if exp == 'ERR' else exp[:2]}"))
        elif got != "ERR":
            # boundary tolerance: candidates within 1e-6 of the cut may go either way
            e2 = [(a, tuple(sorted(b)), tuple(sorted(c))) for a, b, c in exp]
            if sorted(got) != sorted(e2):
                v.append(("select/reported-set", f"{case} gap {gap} max_minor_solutions {mms}: reported {sorted(got)[:3]}, recomputed from stage outputs {sorted(e2)[:3]}"))
            order = [int(1000 * g[0]) for g in got]
            if order != sorted(order):
                v.append(("select/not-best-first", f"{got}"))
            v += self.chain(gene0, sols)
        # output-kind dispatch: each kind of result file states the same list of solutions
        if got != "ERR" and mms == 3:
            for kind in ("aldy", "vcf", "simple"):
                opath = os.path.join(d, f"SAMPLE_{os.getpid()}.{kind}")
                with open(opath, "w") as fh:
                    try:
                        res2 = G.genotype(ypath, spath, ppath, output_file=fh, cn_region=w.neutral(build), genome=build, gap=gap, max_minor_solutions=mms)
                    except AldyException as ex:
                        v.append(("output/run-failed", f"{kind}: {ex}"))
                        continue
                text = open(opath).read()
                sols2 = list(res2.values())[0]
                n = len(sols2)
                if kind == "aldy":
                    heads = [l for l in text.splitlines() if l.startswith("#Solution ")]
                    ids = {l.split("\t")[2] for l in text.splitlines() if l and not l.startswith("#")}
                    if len(heads) != n or ids != {str(i + 1) for i in range(n)}:
                        v.append(("output/aldy-solutions", f"{case}: {n} solutions, file has {len(heads)} headers and ids {sorted(ids)}"))
                    for i, sol in enumerate(sols2):
                        want = ";".join(a.minor for a in sol.solution)
                        rows = [l.split("\t") for l in text.splitlines() if l and not l.startswith("#") and l.split("\t")[2] == str(i + 1)]
                        if any(r[4] != want or r[3] != sol.get_major_diplotype().replace(" ", "") for r in rows):
                            v.append(("output/aldy-solution-fields", f"{case}: solution {i + 1}"))
                elif kind == "vcf":
                    hdr = [l for l in text.splitlines() if l.startswith("#CHROM")]
                    if len(hdr) != 1 or len(hdr[0].split("\t")) != 9 + n:
                        v.append(("output/vcf-columns", f"{case}: {n} solutions, header {hdr[:1]}"))
                else:
                    lines = text.splitlines()
                    f_ = lines[0].rstrip("\t").split("\t") if lines else []
                    if len(lines) != 1 or len(f_) != 2 + 2 * n or f_[1] != "GEN":
                        v.append(("output/simple-line", f"{case}: {n} solutions, line {text!r}"))
                    else:
                        for i, sol in enumerate(sols2):
                            if f_[2 + 2 * i] != sol.get_major_diplotype().replace(" ", ""):
                                v.append(("output/simple-fields", f"{case}: {f_}"))
        ncand = sum(len(minors) for _, _, ml in script for _, _, minors in ml)
        return Outcome(v, key=("real", "ERR" if got == "ERR" else len(got), ncand, len(script)), nontrivial=ncand >= 2 or got == "ERR",
                       counters={"real_samples": 1, "competing": int(ncand >= 2)},
                       note={"sample": str(case)[:200], "gap": gap, "structures": len(script), "candidates": ncand, "reported": None if got == "ERR" else len(got)})


# (components, thinning): thinning keeps the given fraction of reads over a region / a variant position
REAL_CASES = (
    ((("normal", "1.001"), ("normal", "2.002")), ()),
    ((("normal", "1.001"), ("normal", "2.002")), (("region", "e3", 0.7),)),
    ((("normal", "2.001"), ("normal", "3.001")), (("region", "i1", 0.7),)),
    ((("normal", "1.001"), ("normal", "1.001"), ("extra", "2.001")), (("region", "e2", 0.7),)),
    ((("normal", "10.001"), ("normal", "2.002")), (("site", 170, 0.6),)),
    ((("normal", "10.002"), ("normal", "1.002")), (("site", 231, 0.5),)),
    ((("left:e2", "2.002"), ("normal", "10.001")), (("region", "i2", 0.7),)),
    ((("right:e3", "14.001"), ("normal", "1.002")), (("region", "e1", 0.8),)),
    ((("normal", "3.001"), ("del", None)), (("region", "e2", 0.6),)),
    ((("normal", "6.001"), ("normal", "5.001")), (("site", 310, 0.5),)),
    ((("normal", "1.001"), ("normal", "1.001"), ("extra", "1.001")), (("region", "e1", 0.8), ("region", "e3", 0.8))),
    ((("normal", "2.001"), ("normal", "2.001")), (("site", 150, 0.4),)),
    ((("normal", "1.001"), ("normal", "2.001"), ("extra@0.5", "2.001")), ()),
    ((("normal", "1.001"), ("normal", "1.001"), ("extra@0.5", "1.001")), ()),
    ((("normal", "2.001"), ("normal", "3.001"), ("extra@0.5", "10.001")), ()),
    ((("normal", "1.001"), ("normal", "2.002"), ("extra@0.6", "3.001")), ()),
    ((("normal", "1.001"), ("normal", "2.001"), ("extra@0.4", "1.002")), ()),
    ((("vars", "PHASE231"), ("vars", "PHASE150b")), ()),
    ((("vars", "PHASE231"), ("vars", "PHASE150b"), ("xvars@0.5", "PHASE150b")), ()),
    ((("left:e2", "2.002"), ("normal", "10.001"), ("extra@0.5", "1.001")), ()),
    # the catalogued tandem arrangement (fused *13 next to a *1 copy) with two copies of the partner family
    ((("left:i2", "13.001"), ("normal", "1.001"), ("extra", "1.002")), ()),
    ((("left:i2", "13.001"), ("normal", "2.001"), ("extra", "1.002"), ("extra", "1.001")), ()),
)

CHECK = C10
