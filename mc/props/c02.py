"""C02 — major star-allele calls are consistent, optimal and complete.

State = (world key, build, structure (tuple of configuration names), planted majors, deviations,
gap).  0-deviation states are noise-free tables planted from every admissible multiset of
catalogued majors for a structure; one deviation scales one cell by {0.5, 0.8, 1.3} or sets
the count of a catalogued variant nobody planted.  Oracle: mc/ref/major_ref.py (complete
enumeration of allele multisets, closed-form objective).
"""
import collections
import itertools

from ..explore import Check, Outcome
from .. import worlds, tables
from ..ref import major_ref

DEPTH = 10
FACTORS = (0.5, 0.8, 1.3)
GAPS = (0.0, 0.1, 0.5)


def world_keys(tier, seed):
    keys = [("toy",)]
    small = [worlds.WorldSpec(("+", "-"), True, False, 0, "richd"),
             worlds.WorldSpec(("-", "+"), False, True, 1, "richd")]
    if tier == "quick":
        keys += [small[seed % 2]]
    else:
        keys += small
    return keys


def structures(gene, max_copies):
    """Admissible structures of 1..max_copies configurations that have catalogued alleles."""
    names = sorted(c for c in gene.cn_configs if gene.cn_configs[c].alleles)
    dele = gene.deletion_allele()
    out = []
    for k in range(1, max_copies + 1):
        for combo in itertools.combinations_with_replacement(names, k):
            if dele and dele in combo:
                continue     # the deletion is implicit in a reported structure
            nondef = [c for c in combo if c != "1"]
            if len(nondef) > 2:
                continue
            out.append(combo)
    return out


def majors_of(gene, config):
    return sorted(a for a, al in gene.alleles.items() if al.cn_config == config)


def plantings(gene, struct, cap=None):
    cc = collections.Counter(struct)
    groups = [list(itertools.combinations_with_replacement(majors_of(gene, c), k)) for c, k in sorted(cc.items())]
    out = []
    for combo in itertools.product(*groups):
        out.append(tuple(a for grp in combo for a in grp))
    return out


class C02(Check):
    id = "C02"
    rule = ("non-trivial: the reference enumeration has more than one admissible combination within the "
            "gap, or the optimum is above 0 (noise moved it), or no admissible combination exists")
    assumptions = [
        "evidence is given at table level (Coverage objects built from integer count tables, indels in the pileup table as in the unit tests)",
        "states with a count exactly on a filter threshold are counted and skipped (float rounding may go either way)",
        "score tolerance 1e-4, don't-care band at the gap boundary",
    ]

    def bound(self):
        return 1 if self.tier == "quick" else 2

    def max_states(self):
        return 600000

    def initial_states(self):
        for wk in world_keys(self.tier, self.seed):
            build = "hg19"
            gene = worlds.gene_of(wk, build)
            maxc = 2 if (self.tier == "quick" and wk[0] != "toy") else 3
            if self.tier == "thorough" and wk[0] == "toy":
                maxc = 4
            for struct in structures(gene, maxc):
                pl = plantings(gene, struct)
                for i, planted in enumerate(pl):
                    for gi, gap in enumerate(GAPS):
                        if self.tier == "quick" and len(struct) >= 3 and (i + gi) % 3 != self.seed % 3:
                            continue
                        yield (wk, build, struct, planted, (), gap)
        names = ("cyp2c19", "cyp2c9", "nat2", "tpmt", "cyp3a5", "ugt1a1", "cyp2a6", "cyp2b6")
        if self.tier == "quick":
            names = (names[self.seed % len(names)], names[(self.seed + 3) % len(names)])
        for name in names:
            wk = ("shipped", name)
            for build in (("hg19", "hg38") if self.tier == "thorough" else (("hg19", "hg38")[self.seed % 2],)):
                gene = worlds.gene_of(wk, build)
                ms = majors_of(gene, "1")
                pairs = list(itertools.combinations_with_replacement(ms, 2))
                step = max(1, len(pairs) // 150) if self.tier == "quick" else 1
                for pair in pairs[self.seed % step::step]:
                    yield (wk, build, ("1", "1"), pair, (), 0.0)

    def successors(self, st):
        wk, build, struct, planted, devs, gap = st
        if wk[0] == "shipped":
            return
        if devs and not (wk == ("toy",) and len(struct) <= 2 and gap == 0.1):
            return      # second deviation: toy gene, <=2 copies, gap 0.1 (the thorough tier's deepest slice)
        if wk != ("toy",) and len(struct) > 2:
            return      # three-copy plantings of the generated worlds stay noise-free
        if self.tier == "quick" and wk != ("toy",) and (sum(len(a) for a in planted) + len(planted[0])) % 2 != self.seed % 2:
            return      # quick: deviations on a seed-rotated half of the generated world's plantings
        gene = worlds.gene_of(wk, build)
        if not devs:
            # the same evidence judged under ANOTHER gene structure than the planted one (one copy more, one copy
            # fewer, one configuration exchanged): configurations may be left without any candidate allele
            alts = {tuple(sorted(struct + ("1",)))}
            for i in range(len(struct)):
                if len(struct) > 1:
                    alts.add(tuple(sorted(struct[:i] + struct[i + 1:])))
                for c in sorted(gene.cn_configs):
                    if c != struct[i] and c != gene.deletion_allele() and gene.cn_configs[c].alleles:
                        alts.add(tuple(sorted(struct[:i] + (c,) + struct[i + 1:])))
            alts.discard(tuple(sorted(struct)))
            for k, alt in enumerate(sorted(alts)):
                if self.tier == "quick" and wk != ("toy",) and k % 3 != (self.seed + len(planted)) % 3:
                    continue
                yield (f"cn={alt}", (wk, build, struct, planted, (("cn", alt),), gap))
            # read depth exactly at / below min_coverage; every observation exactly at / just below a quality threshold
            k = sum(len(a) for a in planted) + len(planted)
            if self.tier == "thorough" or wk == ("toy",) or k % 4 == self.seed % 4:
                for d in (2, 1):
                    yield (f"depth={d}", (wk, build, struct, planted, (("depth", d),), gap))
                for q in ("at", "below_q", "below_m"):
                    yield (f"qual={q}", (wk, build, struct, planted, (("qual", q),), gap))
        if devs and devs[0][0] in ("cn", "depth", "qual"):
            return
        base = self._base_table(gene, struct, planted)
        cells = []
        core_sites = sorted({m[0] for m in gene.mutations if tables.is_core(gene, m)})
        for pos in core_sites:
            for op in sorted(base.get(pos, {})):
                cells.append((pos, op))
        last = devs[-1][1:3] if devs else None
        for pos, op in cells:
            if last and (pos, op) <= last:
                continue
            for f in FACTORS:
                yield (f"{pos}:{op}x{f}", (wk, build, struct, planted, devs + (("scale", pos, op, f),), gap))
        for m in sorted(gene.mutations):
            if not tables.is_core(gene, m):
                continue
            if m[1] in base.get(m[0], {}):
                continue
            if last and m <= last:
                continue
            for n in (3, DEPTH):
                yield (f"novel {m}={n}", (wk, build, struct, planted, devs + (("set", m[0], m[1], n),), gap))

    def _base_table(self, gene, struct, planted, depth=DEPTH):
        copies = [(gene.alleles[a].cn_config, tables.allele_variants(gene, a)) for a in planted]
        return tables.plant(gene, copies, depth)

    def canon(self, st):
        wk, build, struct, planted, devs, gap = st
        return (wk, build, tuple(sorted(struct)), tuple(sorted(planted)), tuple(sorted(devs)), gap)

    def evaluate(self, st):
        from aldy.profile import Profile
        from aldy.solutions import CNSolution
        from aldy.major import estimate_major
        from .. import repo

        wk, build, struct, planted, devs, gap = st
        repo.reset_debug_store()
        gene = worlds.gene_of(wk, build)
        cn_struct = next((d[1] for d in devs if d[0] == "cn"), None)
        depth = next((d[1] for d in devs if d[0] == "depth"), DEPTH)
        qual = next((d[1] for d in devs if d[0] == "qual"), None)
        special = tuple(d for d in devs if d[0] in ("depth", "qual"))
        devs = tuple(d for d in devs if d[0] not in ("cn", "depth", "qual"))
        table = tables.apply_deviations(self._base_table(gene, struct, planted, depth), devs)
        p = Profile("verif", gap=gap)
        hq = {None: tables.HQ, "at": (p.min_mapq, p.min_quality), "below_q": (60, p.min_quality - 1), "below_m": (p.min_mapq - 1, 60)}[qual]
        cov = tables.to_coverage(gene, p, table, hq=hq)
        if special and (depth < p.min_coverage or qual in ("below_q", "below_m")):
            devs = devs + (("cn", 0),)      # nothing qualifies: no noise-free clause
        if cn_struct is not None:
            struct = cn_struct
            devs = devs + (("cn", 0),)      # no noise-free clause for a foreign structure
        cn = CNSolution(gene, 0, list(struct))
        if (len(planted) + len(devs) + int(gap * 10) + (devs[0][1] if devs else 0)) % 3 == 0:
            # as genotype() does when several structures compete: the SAME evidence object is first solved under
            # another structure (one more default copy); the judged call must not be affected by it
            try:
                estimate_major(gene, cov, CNSolution(gene, 0, list(struct) + ["1"]), "any")
            except Exception:
                pass
        sols = estimate_major(gene, cov, cn, "any")
        got = []
        for s in sols:
            S = tuple(sorted(a.major for a, c in s.solution.items() for _ in range(c)))
            N = tuple(sorted((m.pos, m.op) for m in s.added))
            got.append((s.score, S, N))
        obs = {pos: {op: [hq] * n for op, n in d.items()} for pos, d in table.items()}
        try:
            v, info = major_ref.judge(gene, p, obs, list(struct), gap, got, planted=planted if not devs else None)
        except major_ref.Boundary:
            return Outcome([], key=("boundary",), counters={"boundary_skipped": 1})
        nontriv = info["ref_n"] == 0 or (info["ref_best"] or 0) > 1e-6 or info.get("within", 0) > 1
        key = (len(got), round(min((g[0] for g in got), default=-1), 2), tuple(sorted(g[1] for g in got))[:3])
        return Outcome(v, key=key, nontrivial=nontriv,
                       note={"reported": [(round(s, 3), S, N) for s, S, N in got][:4], "ref": info})


CHECK = C02
