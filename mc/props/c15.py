"""C15 — calls are backed by high-quality reads; low-quality reads are ignored.

State = (world, planted minors, count deviation, thresholds, low-quality edit).  Depth 0:
noise-free and one-deviation tables under every threshold setting (invariant oracle: every
called core variant / novel variant / carried variant has enough qualifying reads).  One
transition adds j in {1,5,50} observations below a quality threshold to one cell (or to a
catalogued variant nobody planted) - the metamorphic oracle compares the complete major
and minor stage output before and after.
"""
import collections
import itertools

from ..explore import Check, Outcome
from .. import worlds, tables
from ..ref import major_ref
from .c02 import structures
from .c04 import minor_plantings

DEPTH = 10
THRESHOLDS = ((10, 10, 2, 0.5), (20, 10, 2, 0.5), (10, 20, 5, 0.5), (10, 10, 1, 0.2), (10, 10, 2, 0.8))


def run_pipeline(gene, p, table, extra, cnlist, hq=None):
    from aldy.solutions import CNSolution
    from aldy.major import estimate_major
    from aldy.minor import estimate_minor
    from ..ref import minor_ref

    cov = tables.to_coverage(gene, p, table, extra=extra, hq=hq)
    cn = CNSolution(gene, 0, list(cnlist))
    majors = estimate_major(gene, cov, cn, "any")
    majors = sorted(majors, key=lambda m: (int(1000 * m.score), m._solution_nice()))
    mj = [(round(m.score, 4), tuple(sorted(a.major for a, c in m.solution.items() for _ in range(c))), tuple(sorted((x.pos, x.op) for x in m.added))) for m in majors]
    minors = estimate_minor(gene, cov, majors, "any", max_solutions=1) if majors else []
    mn = [(round(s.score, 2), minor_ref.canon_solution(s)) for s in minors]
    return mj, mn, cov


class C15(Check):
    id = "C15"
    rule = "non-trivial: low-quality observations are present, or thresholds differ from the defaults, or a count deviation is applied"
    assumptions = [
        "table-level evidence with explicit (mapping, base) quality pairs",
        "scores compared at 1e-4 (major) / 1e-2 (minor, documented precision); states where a qualifying count sits exactly on a threshold are skipped",
    ]

    def bound(self):
        return 1

    def max_states(self):
        return 400000

    def worlds_(self):
        a = [("toy",), worlds.WorldSpec(("+", "-"), True, False, 0, "richd")]
        if self.tier == "thorough":
            a.append(worlds.WorldSpec(("-", "+"), False, True, 1, "richd"))
            a += [("shipped", "nat2"), ("shipped", "tpmt")]
        return a

    def initial_states(self):
        n = 0
        for wk in self.worlds_():
            gene = worlds.gene_of(wk, "hg19")
            for struct in structures(gene, 2):
                if len(struct) != 2:
                    continue
                for planted in minor_plantings(gene, struct):
                    n += 1
                    if wk != ("toy",) and n % (6 if self.tier == "quick" else 2) != self.seed % (6 if self.tier == "quick" else 2):
                        continue
                    if wk[0] == "shipped" and n % 40:
                        continue
                    base = self._base(gene, planted)
                    devs = [()]
                    cells = [(pos, op) for pos in sorted(base) for op in sorted(base[pos]) if op != "_"]
                    for c in cells[:2]:
                        devs.append((("scale", c[0], c[1], 0.5),))
                    # a lone qualifying reference read (below min_coverage) at a site every copy varies at
                    for c in cells:
                        if "_" not in base[c[0]]:
                            devs.append((("set", c[0], "_", 1),))
                            break
                    for dv in devs:
                        for ti, th in enumerate(THRESHOLDS):
                            if self.tier == "quick" and ti and (n + ti) % 3:
                                continue
                            yield (wk, planted, dv, th, ())

    def _base(self, gene, planted):
        copies = [(gene.alleles[M].cn_config, tables.allele_variants(gene, M, mi)) for M, mi in planted]
        return tables.plant(gene, copies, DEPTH)

    def successors(self, st):
        wk, planted, dv, th, lowq = st
        if lowq:
            return
        gene = worlds.gene_of(wk, "hg19")
        base = tables.apply_deviations(self._base(gene, planted), dv)
        mq_, q_, mc, thr = th
        quals = [(60, q_ - 1), (mq_ - 1, 60), (0, 0)]
        # a quality that qualifies under one threshold setting and not under another (15 vs thresholds 10 / 20):
        # below the threshold it is a low-quality edit (metamorphic oracle), above it a qualifying edit (only the
        # support invariant applies) - both roles occur in one process
        quals += [(60, 15), (15, 60)]
        cells = [(pos, op) for pos in sorted(base) for op in sorted(base[pos])]
        unplanted = [m for m in sorted(gene.mutations) if m[1] not in base.get(m[0], {})]
        k = 0
        for (pos, op) in cells + unplanted:
            for qi, qq in enumerate(quals):
                for j in (1, 5, 50):
                    k += 1
                    if self.tier == "quick" and k % 20 != (self.seed + len(planted[0][1])) % 20:
                        continue
                    m_ = 10 if wk == ("toy",) else (20 if wk[0] != "shipped" else 120)
                    if self.tier == "thorough" and k % m_ != (self.seed + len(planted[0][1])) % m_:
                        continue
                    yield (f"+{j} lowq {op}@{pos}", (wk, planted, dv, th, ((pos, op, j, qq),)))

    def evaluate(self, st):
        from aldy.profile import Profile
        from .. import repo

        wk, planted, dv, th, lowq = st
        repo.reset_debug_store()
        gene = worlds.gene_of(wk, "hg19")
        mq_, q_, mc, thr = th
        p = Profile("verif", min_quality=q_, min_mapq=mq_, min_coverage=mc, threshold=thr)
        table = tables.apply_deviations(self._base(gene, planted), dv)
        cnlist = [gene.alleles[M].cn_config for M, _ in planted]
        v = []
        mj0, mn0, cov0 = run_pipeline(gene, p, table, (), cnlist)
        qualifying_edit = any(qq[1] >= q_ and qq[0] >= mq_ for _, _, _, qq in lowq)
        if lowq and qualifying_edit:
            mj1, mn1, cov1 = run_pipeline(gene, p, table, lowq, cnlist)
            mj, mn = mj1, mn1
        elif lowq:
            mj1, mn1, cov1 = run_pipeline(gene, p, table, lowq, cnlist)
            if mj0 != mj1:
                v.append(("quality/major-changed-by-low-quality-reads", f"{planted} thresholds {th} edit {lowq}: {mj0[:2]} -> {mj1[:2]}"))
            if mn0 != mn1:
                v.append(("quality/minor-changed-by-low-quality-reads", f"{planted} thresholds {th} edit {lowq}: {mn0[:1]} -> {mn1[:1]}"))
            mj, mn = mj1, mn1
        else:
            mj, mn = mj0, mn0
            # qualifying reads are interchangeable: the same table with every observation exactly AT both quality
            # thresholds (they "meet" them) gives the same major and minor solutions
            mj2, mn2, _ = run_pipeline(gene, p, table, (), cnlist, hq=(mq_, q_))
            if mj2 != mj0 or mn2 != mn0:
                v.append(("quality/reads-at-the-threshold-not-counted", f"{planted} thresholds {th}: qualities (60,60) give {mj0[:2]} / {mn0[:1]}, qualities {(mq_, q_)} give {mj2[:2]} / {mn2[:1]}"))
        # invariant: support of everything that is called
        obs = {pos: {op: [tables.HQ] * n for op, n in d.items()} for pos, d in table.items()}
        for pos, op, j, qq in lowq:
            obs.setdefault(pos, {}).setdefault(op, []).extend([tuple(qq)] * j)
        q = major_ref.quality_filtered(p, obs)

        def backed(m):
            n, T = major_ref.cnt(q, m[0], m[1]), major_ref.total(q, m[0])
            pcn = major_ref.position_cn(gene, cnlist, m[0])
            need = max(p.min_coverage, T * p.threshold / (pcn + 0.5))
            if abs(n - need) < 1e-9:
                return None
            return n >= need

        for score, S, N in mj:
            for a in S:
                for x in gene.alleles[a].func_muts:
                    b = backed((x.pos, x.op))
                    if b is False:
                        v.append(("quality/called-core-variant-unsupported", f"{planted} {th} {lowq}: major {a} called, its core variant {(x.pos, x.op)} lacks qualifying support"))
            for m in N:
                if backed(m) is False:
                    v.append(("quality/novel-variant-unsupported", f"{planted} {th} {lowq}: {m} flagged novel without qualifying support"))
        for score, sol in mn:
            for M, mi, added, missing in sol:
                carried = (tables.allele_variants(gene, M, mi) | set(added)) - set(missing)
                for m in carried:
                    if backed(m) is False:
                        v.append(("quality/carried-variant-unsupported", f"{planted} {th} {lowq}: {mi} carries {m} without qualifying support"))
        nontriv = bool(lowq) or th != THRESHOLDS[0] or bool(dv)
        key = (len(mj), mj[0][1] if mj else None, len(mn), bool(lowq))
        return Outcome(v, key=key, nontrivial=nontriv, note={"planted": planted, "thresholds": th, "edit": lowq, "majors": mj[:2]})


CHECK = C15
