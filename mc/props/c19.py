"""C19 — no genotype is reported from no data.

Exhaustive product: read placement x depth x mode (profile file, BAM profile, user-supplied
structure) x world; one transition selects an output kind (.aldy, .vcf, .simple).
"""
import os

from ..explore import Check, Outcome
from .. import worlds, simreads

PLACEMENTS = ("none", "neutral", "pad", "pseudo", "gene", "gene+pseudo", "all")
DEPTHS = (0.5, 1.5, 20)
MODES = ("yaml", "bam", "cn")
OUTPUTS = (None, "aldy", "vcf", "simple")


class C19(Check):
    id = "C19"
    rule = "non-trivial: every placement other than 'all' at full depth (some part of the evidence is missing or thin)"
    assumptions = [
        "depths per copy 0.5 (1x total, below the minimum of 2), 1.5 (3x, above it) and 20; exactly 2x is avoided (boundary of the documented minimum)",
        "cases the property does not decide (thin but sufficient depth; gene reads without pseudogene reads; a user-supplied structure that contradicts pseudogene-only evidence) must merely end in a call or in an AldyException",
    ]

    def bound(self):
        return 1

    def specs(self):
        a = [worlds.WorldSpec(("+", "-"), True, False, 0, "small"), worlds.WorldSpec(("-", "+"), False, True, 1, "small")]
        if self.tier == "thorough":
            a += [worlds.WorldSpec(("+", "-"), True, True, 2, "rich"), worlds.WorldSpec(("-", "-"), False, False, 0, "rich")]
        return a

    def initial_states(self):
        for spec in self.specs():
            for build in ("hg19", "hg38"):
                if self.tier == "quick" and build != ("hg19", "hg38")[(self.seed + spec.seqid) % 2]:
                    continue
                for pl in PLACEMENTS:
                    if not spec.pseudo and pl in ("pseudo", "gene+pseudo"):
                        continue
                    for dp in DEPTHS:
                        for mode in MODES:
                            yield (spec, build, pl, dp, mode, None)
                            if pl in ("all", "gene") and dp in (1.5, 20):
                                # the configured minimum itself: 3x is below a minimum of 10, 40x is not
                                yield (spec, build, pl, dp, mode, None, "avg10")

    def successors(self, st):
        spec, build, pl, dp, mode, out = st[:6]
        if len(st) > 6:
            return
        if out is None:
            for o in OUTPUTS[1:]:
                if self.tier == "quick" and dp == 1.5:
                    continue
                yield (f"output={o}", (spec, build, pl, dp, mode, o))

    def evaluate(self, st):
        import yaml
        from aldy.genotype import genotype
        from aldy.profile import Profile
        from aldy.common import AldyException
        from .. import repo

        spec, build, pl, dp, mode, out = st[:6]
        par = st[6] if len(st) > 6 else None
        repo.reset_debug_store()
        w = worlds.world(spec)
        gene = worlds.gene_of(spec, build)
        sim = simreads.Simulator(w, build)
        d = worlds.tmpdir()
        pid = os.getpid()
        import hashlib
        tag = hashlib.sha1(repr((spec, build)).encode()).hexdigest()[:8]
        ypath = w.yaml_file(d)
        ppath = os.path.join(d, f"c19prof_{tag}.bam")
        if not os.path.exists(ppath + ".bai"):
            simreads.write_bam(ppath, sim.profile_reads(100, 20))
        pyml = os.path.join(d, f"c19prof_{tag}.yml")
        if not os.path.exists(pyml):
            regions = {(gene.name, r, gi): rng for gi, gr in enumerate(gene.regions) for r, rng in gr.items()}
            data = Profile.get_sam_profile_data(ppath, regions=regions, cn_region=w.neutral(build), genome=build)
            with open(pyml, "w") as f:
                f.write(yaml.dump(data, default_flow_style=None))
        rl = 100
        reads = []
        depth = dp
        if pl in ("gene", "gene+pseudo", "all"):
            for c in range(2):
                reads += sim.gene_copy([], rl, depth, f"g{c}")
        if pl in ("pseudo", "gene+pseudo", "all") and spec.pseudo:
            for c in range(2):
                reads += sim.pseudo_copy(rl, depth, f"p{c}")
        if pl == "pad":
            # reads stacked in the 500 bases before the locus (inside the padded fetch window, outside the locus)
            wide = gene.get_wide_region()
            G = sim.G
            for k in range(int(20 * 4)):
                st_ = wide.start - 430 + (k % 20) * 10
                reads.append((f"pad{k}", st_, G[st_:st_ + 100], "100M"))
        if pl in ("neutral", "pad", "gene", "pseudo", "all"):
            for c in range(2):
                reads += sim.neutral(rl, max(depth, 0.5), f"n{c}")
        # a few reads far away so that the file is never empty
        reads += [("far0", 200, "A" * 50, "50M")]
        spath = os.path.join(d, f"c19s_{pid}.bam")
        simreads.write_bam(spath, reads)
        opath = None
        fh = None
        if out:
            opath = os.path.join(d, f"SAMPLE_{pid}.{out}")
            fh = open(opath, "w")
        kw = dict(output_file=fh, genome=build)
        if par == "avg10":
            kw["min_avg_coverage"] = 10
        if mode == "cn":
            kw.update(profile_name=None, cn_solution=["1", "1"])
        elif mode == "bam":
            kw.update(profile_name=ppath, cn_region=w.neutral(build))
        else:
            kw.update(profile_name=pyml)
        try:
            try:
                res = genotype(ypath, spath, **kw)
                sols = list(res.values())[0]
                err = None
            except AldyException as ex:
                sols, err = None, str(ex)
        finally:
            if fh:
                fh.close()
        text = open(opath).read() if opath else ""
        v = []
        locus_reads = pl in ("pseudo", "gene", "gene+pseudo", "all")
        total_depth = 2 * dp
        must_fail = None
        if not locus_reads:
            must_fail = "no read in the gene locus"
        elif total_depth < (10 if par == "avg10" else 2):
            must_fail = f"average depth {total_depth}x below the configured minimum"
        elif mode != "cn" and pl == "gene+pseudo":
            must_fail = "copy-number-neutral region is empty"
        where = f"{pl} reads, {dp}x/copy, mode {mode}, output {out}, {build}"
        if must_fail:
            if err is None:
                v.append((f"nodata/call-reported/{mode}", f"{where}: {must_fail}, yet {[s.get_major_diplotype() for s in sols]} was reported"))
            if out in ("aldy", "vcf") and any(l and not l.startswith("#") for l in text.splitlines()):
                v.append(("nodata/rows-written", f"{where}: output has solution rows: {text[:200]!r}"))
            if out == "simple":
                lines = text.split("\n")
                if not (len(lines) == 2 and lines[1] == "" and lines[0].rstrip("\t").split("\t")[1:] == ["GEN"] and lines[0].endswith("\t")):
                    v.append(("nodata/simple-line", f"{where}: simple output {text!r}, expected one empty result line"))
        else:
            if pl == "all" and dp == 20:
                if err is not None:
                    v.append(("nodata/full-sample-rejected", f"{where}: {err}"))
                elif [s.get_major_diplotype() for s in sols] != ["*1 / *1"]:
                    v.append(("nodata/full-sample-miscalled", f"{where}: {[s.get_major_diplotype() for s in sols]}"))
            if pl == "pseudo" and mode != "cn" and dp == 20:
                dele = gene.deletion_allele()
                if dele:
                    want = f"*{dele} / *{dele}"
                    if err is not None or [s.get_major_diplotype() for s in sols] != [want]:
                        v.append(("nodata/pseudogene-only-not-deletion", f"{where}: {err or [s.get_major_diplotype() for s in sols]}, expected {want}"))
            if err is None and out == "simple":
                if len(text.splitlines()) != 1 or len(text.split("\t")) < 4:
                    v.append(("nodata/simple-line", f"{where}: {text!r}"))
        key = (pl, dp, mode, par, "error" if err is not None else tuple(s.get_major_diplotype() for s in sols)[:1])
        return Outcome(v, key=key, nontrivial=not (pl == "all" and dp == 20),
                       note={"case": where, "error": err[:80] if err else None, "called": None if sols is None else [s.get_major_diplotype() for s in sols]})


CHECK = C19
