"""C16 — VCF genotypes are turned into matching evidence for every variant kind.

State = (world, build, allele pair, encoding) where encoding = (mnv form, phased, swapped REF,
extra records, number of sample columns, selected column).  Depth 0: every catalogued minor
allele heterozygous and homozygous, and every pair, in the default encoding; one transition
changes one encoding option.  The VCF is written from the database truth (left-anchored
records), bgzipped and indexed, loaded by Sample() (evidence-level oracle) and genotyped
end to end.
"""
import collections
import os

from ..explore import Check, Outcome
from .. import worlds

DEFAULT_ENC = ("one", False, False, "none", 1, 0)


def plain_minors(gene):
    """(major, minor) of non-structural catalogued alleles."""
    out = []
    for M, a in gene.alleles.items():
        if a.cn_config != "1":
            continue
        if any("ins" in m.op[3:] and m.op.startswith("del") for m in a.func_muts):
            continue      # deletion-insertions are not among the variant kinds the property lists for VCF input
        for mi in sorted(a.minors):
            out.append((M, mi))
    return out


def variants_of(gene, M, mi):
    a = gene.alleles[M]
    return {(m.pos, m.op) for m in a.func_muts} | {(m.pos, m.op) for m in a.minors[mi].neutral_muts}


def records_for(gene, copies, enc):
    """copies: list of variant sets (one per chromosome copy).  -> list of (pos1, ref, [alts], gt indices per copy)"""
    mnv_form, phased, swapped, extras, ns, idx = enc
    recs = []
    allv = sorted(set().union(*copies)) if copies else []
    bysite = collections.defaultdict(list)

    def expand(m):
        pos, op = m
        if ">" in op:
            l, r = op.split(">")
            if len(l) == 1:
                return [(pos, l, r)]
            ref = "".join(gene[pos + i] if c == "." else c for i, c in enumerate(l))
            alt = "".join(gene[pos + i] if c == "." else c for i, c in enumerate(r))
            if mnv_form == "one":
                return [(pos, ref, alt)]
            return [(pos + i, ref[i], alt[i]) for i in range(len(ref)) if ref[i] != alt[i]]
        if op.startswith("ins"):
            return [(pos, gene[pos], gene[pos] + op[3:])]
        body = op[3:]
        if "ins" in body:
            d, i = body.split("ins")
            return [(pos, d, i)]
        return [(pos - 1, gene[pos - 1] + body, gene[pos - 1])]

    comp = {}
    for m in allv:
        for (p, ref, alt) in expand(m):
            comp.setdefault((p, ref), {}).setdefault(alt, set()).add(m)
    for (p, ref), alts in sorted(comp.items()):
        altlist = sorted(alts)
        gts = []
        for c in copies:
            g = 0
            for ai, alt in enumerate(altlist):
                if alts[alt] & c:
                    g = ai + 1
            gts.append(g)
        if swapped and len(ref) == 1 and len(altlist) == 1 and len(altlist[0]) == 1:
            # the file's REF is the variant base: allele 0 = variant, allele 1 = the gene's reference base
            recs.append((p + 1, altlist[0], [ref], [1 - g for g in gts]))
        else:
            recs.append((p + 1, ref, altlist, gts))
    return recs


def write_vcf(path, gene, recs, enc, other=None, extra_records=()):
    import pysam
    mnv_form, phased, swapped, extras, ns, idx = enc
    sep = "|" if phased else "/"
    names = [f"S{i}" for i in range(ns)]
    lines = ["##fileformat=VCFv4.2", f"##contig=<ID={gene.chr},length={worlds.CHRLEN if gene.chr == '7' else 300000000}>",
             '##FORMAT=<ID=GT,Number=1,Type=String,Description="GT">',
             "#CHROM\tPOS\tID\tREF\tALT\tQUAL\tFILTER\tINFO\tFORMAT\t" + "\t".join(names)]
    rows = []
    for pos1, ref, alts, gts in recs:
        if extras == "delref" and len(ref) > 1 and all(len(a) == 1 for a in alts):
            # the file's reference differs from the RefSeq-derived one in a deleted base
            ref = ref[:-1] + {"A": "C", "C": "G", "G": "T", "T": "A"}[ref[-1]]
        cols = []
        for si in range(ns):
            if si == idx:
                cols.append(sep.join(str(g) for g in (sorted(gts) if not phased else gts)))
            else:
                cols.append("0/0" if other is None else other)
        rows.append((pos1, f"{gene.chr}\t{pos1}\t.\t{ref}\t{','.join(alts)}\t.\tPASS\t.\tGT\t" + "\t".join(cols)))
    for pos1, ref, alt, gt in extra_records:
        cols = [gt if si == idx else "0/0" for si in range(ns)]
        rows.append((pos1, f"{gene.chr}\t{pos1}\t.\t{ref}\t{alt}\t.\tPASS\t.\tGT\t" + "\t".join(cols)))
    rows.sort(key=lambda x: x[0])
    with open(path, "w") as f:
        f.write("\n".join(lines + [r for _, r in rows]) + "\n")
    pysam.tabix_index(path, preset="vcf", force=True)
    return path + ".gz"


class C16(Check):
    id = "C16"
    rule = "non-trivial: the genotype carries at least one variant; distinct (world, pair, encoding) are distinct states"
    assumptions = [
        "records are left-anchored at the database's own placement (REF = preceding base + deleted bases; insertion after the keyed base)",
        "reference support is judged as copies: count / (site total / 2); for an insertion the reference support at its site is not required to drop (aldy's table semantics)",
        "MNV components written as adjacent records are merged regardless of phase (an unphased file cannot say more)",
    ]

    def bound(self):
        return 1

    def specs(self):
        a = [worlds.WorldSpec(("+", "-"), False, False, 0, "edge")]
        shipped = [("shipped", "slco1b1"), ("shipped", "nat2"), ("shipped", "tpmt"), ("shipped", "cyp2c19")]
        if self.tier == "thorough":
            a += [worlds.WorldSpec(("-", "+"), True, True, 1, "edge")] + shipped
        else:
            a += [shipped[self.seed % 4]]
        return a

    def initial_states(self):
        for spec in self.specs():
            builds = ("hg19", "hg38") if spec[0] != "shipped" else ("hg19",)
            for build in builds:
                gene = worlds.gene_of(spec, build)
                mins = plain_minors(gene)
                ref = mins[0]
                for i, a in enumerate(mins):
                    if self.tier == "quick" and spec[0] == "shipped" and i % max(1, len(mins) // 15):
                        continue
                    yield (spec, build, (ref, a), DEFAULT_ENC)
                    yield (spec, build, (a, a), DEFAULT_ENC)
                    if spec[0] != "shipped":
                        for b in mins[i + 1:]:
                            if self.tier == "quick" and build == "hg38" and (i % 2):
                                continue
                            yield (spec, build, (a, b), DEFAULT_ENC)

    def successors(self, st):
        spec, build, pair, enc = st
        if enc != DEFAULT_ENC:
            return
        if spec[0] == "shipped" or (self.tier == "quick" and not (pair[0] == pair[1] or pair[0][1].startswith("1.001") or pair[0][0] in ("2", "5"))):
            return
        mnv_form, phased, swapped, extras, ns, idx = enc
        yield ("adjacent", (spec, build, pair, ("adjacent", phased, swapped, extras, ns, idx)))
        yield ("phased", (spec, build, pair, (mnv_form, True, swapped, extras, ns, idx)))
        yield ("adjacent+phased", (spec, build, pair, ("adjacent", True, swapped, extras, ns, idx)))
        yield ("swapped", (spec, build, pair, (mnv_form, phased, True, extras, ns, idx)))
        for e in ("complex", "missing", "haploid", "delref"):
            yield (e, (spec, build, pair, (mnv_form, phased, swapped, e, ns, idx)))
        for ns2, idx2 in ((2, 0), (2, 1), (3, 1), (3, 2)):
            yield (f"samples={ns2}/{idx2}", (spec, build, pair, (mnv_form, phased, swapped, extras, ns2, idx2)))

    def evaluate(self, st):
        from aldy.genotype import genotype
        from aldy.profile import Profile
        from aldy.sam import Sample
        from aldy.common import AldyException
        from .. import repo

        spec, build, pair, enc = st
        repo.reset_debug_store()
        mnv_form, phased, swapped, extras, ns, idx = enc
        gene = worlds.gene_of(spec, build)
        d = worlds.tmpdir()
        copies = [variants_of(gene, M, mi) for M, mi in pair]
        recs = records_for(gene, copies, enc)
        extra_records = []
        planted = set().union(*copies)
        lo, hi = gene._lookup_range
        free = [p for p in range(lo + 40, hi - 40) if p in gene.chr_to_ref and all(abs(p - m[0]) > 12 for m in gene.mutations)
                and "N" not in gene[p:p + 4]]
        if extras == "complex" and free:
            p = free[0]
            comp = {"A": "C", "C": "G", "G": "T", "T": "A"}
            extra_records.append((p + 1, gene[p:p + 2], comp[gene[p]] + comp[gene[p + 1]], "0/1"))      # uncatalogued MNP
            p2 = free[len(free) // 2]
            extra_records.append((p2 + 1, gene[p2:p2 + 3], comp[gene[p2]], "0/1"))                       # complex del-ins
            extra_records.append((free[-1] + 1, gene[free[-1]], "<DEL>", "0/1"))                         # symbolic
        other_cat = [m for m in sorted(gene.mutations) if m not in planted and len(m[1]) == 3
                     and not any(abs(m[0] - q[0]) < 3 for q in planted)]
        if extras == "missing" and other_cat:
            m = other_cat[0]
            extra_records.append((m[0] + 1, m[1][0], m[1][2], "./."))
        if extras == "haploid" and other_cat:
            m = other_cat[-1]
            extra_records.append((m[0] + 1, m[1][0], m[1][2], "1"))
        path = os.path.join(d, f"c16_{os.getpid()}.vcf")
        gz = write_vcf(path, gene, recs, enc, other="1/1" if ns > 1 else None, extra_records=extra_records)
        where = f"{pair} enc={enc} {build}"
        v = []
        # ---------------- evidence level
        try:
            sm = Sample(gene, Profile("user_provided", cn_solution=["1", "1"], vcf_sample_idx=idx), gz)
        except AldyException as ex:
            return Outcome([("vcf/rejected", f"{where}: {ex}")], key=("rejected",), nontrivial=True)
        cov = sm.coverage
        from aldy.gene import Mutation
        want = collections.Counter()
        for c in copies:
            want.update(c)
        for m in sorted(gene.mutations):
            mm = Mutation(*m)
            tot = cov.total(mm)
            got = cov[mm] / (tot / 2) if tot else 0
            k = want.get(m, 0)
            kind = "ins" if m[1].startswith("ins") else "del" if m[1].startswith("del") else "mnv" if len(m[1]) > 3 else "snv"
            form = f"/{mnv_form}" if kind == "mnv" else ""
            if abs(got - k) > 1e-9:
                v.append((f"vcf/support/{kind}{form}", f"{where}: {m} carried by {k} copies, evidence shows {got} copies ({cov[mm]} of {tot})"))
        sites = collections.defaultdict(int)
        for m, k in want.items():
            if not m[1].startswith("ins"):
                sites[m[0]] += k
        for pos, k in sites.items():
            tot = cov.total(pos)
            ref = cov[Mutation(pos, "_")] / (tot / 2) if tot else 0
            if abs(ref - (2 - k)) > 1e-9:
                kinds = sorted({("del" if m[1].startswith("del") else "mnv" if len(m[1]) > 3 else "snv") for m in want if m[0] == pos})
                v.append((f"vcf/reference-support/{'+'.join(kinds)}", f"{where}: site {pos}: {k} alternate copies, reference support {ref} copies"))
        # unrecorded catalogued sites are homozygous reference
        for m in sorted(gene.mutations):
            if m[0] not in sites and not any(abs(m[0] - q) < 4 for q in sites):
                tot = cov.total(m[0])
                if tot and cov[Mutation(m[0], "_")] != tot:
                    v.append(("vcf/unrecorded-site-not-reference", f"{where}: {m[0]}"))
                    break
        # ---------------- end to end
        try:
            res = genotype(worlds.world(spec).yaml_file(d) if spec[0] not in ("shipped", "toy") else spec[1], gz, None,
                           output_file=None, genome=build, vcf_sample_idx=idx)
            sols = list(res.values())[0]
            called = [tuple(sorted((a.major, a.minor, tuple(sorted(a.added)), tuple(sorted(a.missing))) for a in s.solution)) for s in sols]
            err = None
        except AldyException as ex:
            called, err = [], str(ex)
        wantcall = tuple(sorted((M, mi, (), ()) for M, mi in pair))
        wantvars = collections.Counter()
        for c in copies:
            wantvars.update(c)
        ok = False
        for s in (sols if err is None else []):
            gv = collections.Counter()
            for a in s.solution:
                al = gene.alleles[a.major]
                gv.update(({(m.pos, m.op) for m in al.func_muts} | {(m.pos, m.op) for m in al.minors[a.minor].neutral_muts}
                           | {(m.pos, m.op) for m in a.added}) - {(m.pos, m.op) for m in a.missing})
            majors = sorted(a.major for a in s.solution)
            if gv == wantvars and majors == sorted(M for M, _ in pair):
                ok = True
        if not ok and not v:
            v.append(("vcf/e2e-call", f"{where}: expected {[mi for _, mi in pair]}, reported {err or called[:2]}"))
        elif not ok:
            v.append(("vcf/e2e-call-with-bad-evidence", f"{where}: expected {[mi for _, mi in pair]}, reported {err or called[:2]}"))
        key = (tuple(sorted(set(mi for _, mi in pair))) if len(pair) else (), ok, len(v))
        return Outcome(v, key=(ok, called[0][0][:2] if called else None, len(recs)), nontrivial=bool(planted),
                       note={"pair": [mi for _, mi in pair], "encoding": enc, "records": recs[:4], "called": [[a[1] for a in c] for c in called][:2]})


CHECK = C16
