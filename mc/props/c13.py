"""C13 — calls do not depend on genome build or gene strand.

(a) table level: evidence is built in RefSeq terms (per catalogued variant a count, per site
    a reference count, phase patterns keyed by RefSeq variants) and instantiated against
    hg19 and hg38 through each build's own maps; structure, major and minor stages are run
    on both and compared in RefSeq notation.  Depth 0: noise-free tables of every pair of
    minors (+ structural plantings); one transition scales one cell or adds an unplanted
    variant.
(b) alignment level: genotypes simulated against each build of a generated world and run
    through genotype().
"""
import collections
import itertools
import os

from ..explore import Check, Outcome
from .. import worlds, tables, simreads
from .c02 import structures
from .c04 import minor_plantings, PhaseStub

DEPTH = 10
FACTORS = (0.5, 0.8, 1.3)


def ident(gene, m):
    """RefSeq identity of a loaded variant."""
    x = gene.mutations[m]
    return (x[3] + 1, x[4])


def by_ident(gene):
    return {ident(gene, m): m for m in gene.mutations}


def site_groups(wk):
    """Variants (RefSeq identities) that share a key position in hg19 or in hg38 form one group:
    reference evidence is only expressible per group in both coordinate systems.
    -> (group id of each identity, identities whose site sharing differs between the builds)"""
    parent = {}

    def find(x):
        while parent.setdefault(x, x) != x:
            parent[x] = parent[parent[x]]
            x = parent[x]
        return x

    share = {}
    for build in ("hg19", "hg38"):
        g = worlds.gene_of(wk, build)
        bypos = collections.defaultdict(list)
        for m in g.mutations:
            bypos[m[0]].append(ident(g, m))
        pairs = set()
        for ids in bypos.values():
            for a in ids:
                find(a)
                for b in ids:
                    if a < b:
                        pairs.add((a, b))
                        parent[find(a)] = find(b)
        share[build] = pairs
    asym = {x for pr in share["hg19"] ^ share["hg38"] for x in pr}
    return {x: find(x) for x in list(parent)}, asym


def refseq_set(gene, ms):
    return tuple(sorted(ident(gene, (m.pos, m.op)) if (m.pos, m.op) in gene.mutations else ("?", str(m)) for m in ms))


class C13(Check):
    id = "C13"
    rule = "non-trivial: the two builds put the gene on opposite strands, or the evidence is noisy, or the planted alleles carry indels/MNVs or a fusion"
    assumptions = [
        "scores are compared within the documented precision 1e-2; everything else exactly, in RefSeq notation",
        "alignment level: for samples with indel alleles only the calls are compared, not the scores (read ends fall differently around the indel in the two builds, so the realigned counts - the evidence - differ)",
        "a difference in which of several equal-score refinements is reported (both being members of the other build's complete optimal set, or the optimal set exceeding the 20 refinements enumerated) is classified as the known tie-choice finding D7, everything else is a violation",
    ]

    def bound(self):
        return 1

    def max_states(self):
        return 300000

    def worlds_(self):
        a = [("toy",), worlds.WorldSpec(("+", "-"), True, False, 0, "richd")]
        if self.tier == "thorough":
            a += [worlds.WorldSpec(("-", "+"), True, True, 1, "richd"), worlds.WorldSpec(("+", "-"), False, True, 2, "richd")]
        return a

    def initial_states(self):
        n = 0
        for wk in self.worlds_():
            gene = worlds.gene_of(wk, "hg19")
            for struct in structures(gene, 2 if self.tier == "quick" else 3):
                for planted in minor_plantings(gene, struct):
                    n += 1
                    if self.tier == "quick" and wk != ("toy",) and n % 5 != self.seed % 5:
                        continue
                    if len(planted) == 3 and n % 4:
                        continue
                    yield ("table", wk, planted, (), 0.0)
            # structure stage on the same vectors
            for pair in itertools.combinations_with_replacement(sorted(gene.cn_configs), 2):
                for k in (0, 1):
                    yield ("cn", wk, (pair, k), (), 0.1)
        if self.tier == "thorough":
            from .. import repo
            for name in repo.shipped_gene_names():
                if name.startswith("pharma") or name in ("dpyd", "ryr1", "cftr"):
                    continue
                wk = ("shipped", name)
                gene = worlds.gene_of(wk, "hg19")
                mins = [(M, mi) for M, a in gene.alleles.items() if a.cn_config == "1" for mi in sorted(a.minors)][:14]
                for a, b in itertools.combinations_with_replacement(mins, 2):
                    yield ("table", wk, (a, b), (), 0.0)
        for spec in self.worlds_()[1:]:
            for i, comps in enumerate(E2E):
                if not spec.pseudo and any(k.split(":")[0] in ("left", "right") for k, _ in comps):
                    continue
                yield ("e2e", spec, comps, (), 0.0)

    def successors(self, st):
        kind, wk, planted, devs, gap = st
        if kind == "cn":
            if devs:
                return
            gene = worlds.gene_of(wk, "hg19")
            for r in gene.unique_regions:
                for g in range(len(gene.regions[:2])):
                    for d in (0.3, -0.4):
                        yield (f"{r}/{g}{d:+}", (kind, wk, planted, ((r, g, d),), gap))
            return
        if kind != "table" or devs or wk[0] == "shipped":
            return
        gene = worlds.gene_of(wk, "hg19")
        base = self._base(gene, planted)
        idm = {m: ident(gene, m) for m in gene.mutations}
        k = 0
        seen_ref = set()
        for pos in sorted(base):
            for op in sorted(base[pos]):
                if op == "_":
                    # reference cell: identified by the group of RefSeq variants keyed there (in either build)
                    here = sorted(idm[m] for m in gene.mutations if m[0] == pos)
                    if not here:
                        continue
                    grp = site_groups(wk)[0]
                    cell = ("ref", grp[here[0]])
                    if cell in seen_ref:
                        continue
                    seen_ref.add(cell)
                else:
                    cell = ("var", idm[(pos, op)])
                for f in FACTORS:
                    k += 1
                    if self.tier == "quick" and k % 2 != self.seed % 2:
                        continue
                    yield (f"{cell}x{f}", (kind, wk, planted, (("scale", cell, f),), gap))
        for m in sorted(gene.mutations):
            if m[1] in base.get(m[0], {}):
                continue
            for nreads in (3, 10):
                yield (f"set {idm[m]}={nreads}", (kind, wk, planted, (("set", ("var", idm[m]), nreads),), gap))
        # one phase pattern over two RefSeq variants of the planted alleles
        if wk == ("toy",) or len(planted) == 2:
            vs = sorted({idm[m] for M, mi in planted for m in tables.allele_variants(gene, M, mi)})
            for a, b in itertools.combinations(vs, 2):
                for ca in (True, False):
                    yield (f"phase {a}{b}{ca}", (kind, wk, planted, (("phase", (a, ca), (b, True)),), gap))

    def _base(self, gene, planted):
        copies = [(gene.alleles[M].cn_config, tables.allele_variants(gene, M, mi)) for M, mi in planted]
        return tables.plant(gene, copies, DEPTH)

    # ------------------------------------------------------------------
    def evaluate(self, st):
        if st[0] == "table":
            return self._eval_table(st)
        if st[0] == "cn":
            return self._eval_cn(st)
        return self._eval_e2e(st)

    def _eval_cn(self, st):
        from aldy.profile import Profile
        from aldy import cn
        from .c03 import vector

        _, wk, planted, devs, gap = st
        res = {}
        for build in ("hg19", "hg38"):
            gene = worlds.gene_of(wk, build)
            p = Profile("verif", gap=gap)
            rc = vector(gene, planted + (0,), devs)
            sols = cn.solve_cn_model(gene, p, gene.cn_configs, 4, rc, "any")
            res[build] = sorted((tuple(sorted(s.solution.elements())), round(s.score, 4)) for s in sols)
        v = []
        if res["hg19"] != res["hg38"]:
            v.append(("builds/structure-differs", f"{wk} planted {planted} devs {devs}: hg19 {res['hg19']} vs hg38 {res['hg38']}"))
        return Outcome(v, key=("cn", tuple(x[0] for x in res["hg19"])), nontrivial=bool(devs) or len(res["hg19"]) > 1)

    def _run_table(self, wk, build, planted, devs, gap, mms):
        from aldy.profile import Profile
        from aldy.solutions import CNSolution
        from aldy.major import estimate_major
        from aldy.minor import estimate_minor

        gene = worlds.gene_of(wk, build)
        inv = by_ident(gene)
        table = self._base(gene, planted)
        phases = {}
        for d in devs:
            if d[0] == "scale":
                _, (ck, cid), f = d
                if ck == "ref":
                    grp = site_groups(wk)[0]
                    cells = sorted({(inv[x][0], "_") for x in grp if grp[x] == cid and x in inv})
                else:
                    cells = [inv[cid]]
                for pos_, op in cells:
                    if op in table.get(pos_, {}):
                        table[pos_][op] = int(round(table[pos_][op] * f))
                        if table[pos_][op] <= 0:
                            del table[pos_][op]
            elif d[0] == "set":
                _, (ck, cid), nreads = d
                m = inv[cid]
                table.setdefault(m[0], {})[m[1]] = nreads
            elif d[0] == "phase":
                _, (a, ca), (b, cb) = d
                ma, mb = inv[a], inv[b]
                if ma[0] != mb[0]:
                    for j in range(3):
                        phases[f"r{j}"] = {ma[0]: ma[1] if ca else "_", mb[0]: mb[1] if cb else "_"}
        p = Profile("verif", gap=gap, max_minor_solutions=mms)
        cov = tables.to_coverage(gene, p, table, sam=PhaseStub(phases) if phases else None)
        cnlist = [gene.alleles[M].cn_config for M, _ in planted]
        cn = CNSolution(gene, 0, cnlist)
        majors = estimate_major(gene, cov, cn, "any")
        majors = sorted(majors, key=lambda m: (int(1000 * m.score), m._solution_nice()))
        mj = sorted((round(m.score, 2), tuple(sorted(a.major for a, c in m.solution.items() for _ in range(c))), refseq_set(gene, m.added)) for m in majors)
        mn = []
        if majors:
            for s in estimate_minor(gene, cov, majors, "any", max_solutions=mms):
                mn.append((round(s.score, 2), tuple(sorted((a.major, a.minor, refseq_set(gene, a.added), refseq_set(gene, a.missing)) for a in s.solution))))
        self._last = (gene, p, table, cnlist, majors, phases)
        return mj, sorted(mn), bool(phases)

    def _optimal_readouts(self, ctx):
        """Complete set of optimal refinements (RefSeq notation) per major solution, by enumeration (minor_ref)."""
        from ..ref import minor_ref, major_ref
        import collections as C

        gene, p, table, cnlist, majors, phases = ctx
        obs = {pos: {op: [tables.HQ] * n for op, n in d.items()} for pos, d in table.items()}
        considered = set()
        pooled = []
        for ms in majors:
            for sa in ms.solution:
                considered |= {(m.pos, m.op) for m in gene.alleles[sa.major].func_muts}
                for mi, mn_ in gene.alleles[sa.major].minors.items():
                    considered |= {(m.pos, m.op) for m in mn_.neutral_muts}
                    pooled.append((sa.major, mi))
            considered |= {(m.pos, m.op) for m in ms.added}
        considered |= {(m.pos, m.op) for m in gene.random_mutations}
        out = set()
        f = minor_ref.evidence_filter(gene, p, obs, cnlist, considered)
        for ms in majors:
            counts = C.Counter()
            for sa, k in ms.solution.items():
                counts[sa.major] += k
            model = minor_ref.Model(gene, p, f, cnlist, counts, considered, phases or None, pooled=sorted(set(pooled)))
            best, asg = model.enumerate(limit=None, slack=5e-3)
            for o, copies, carried in asg:
                ro = model.readout(copies, carried)
                out.add(tuple(sorted((M, mi, tuple(sorted(ident(gene, m) for m in ad)), tuple(sorted(ident(gene, m) for m in mis)))
                                     for M, mi, ad, mis in ro)))
        return out

    def _eval_table(self, st):
        from .. import repo

        _, wk, planted, devs, gap = st
        repo.reset_debug_store()
        r = {b: self._run_table(wk, b, planted, devs, gap, 1) for b in ("hg19", "hg38")}
        v = []
        where = f"{wk} planted {planted} devs {devs}"

        def close(a, b):
            return len(a) == len(b) and all(x[1:] == y[1:] and abs(x[0] - y[0]) <= 1e-2 for x, y in zip(a, b))

        g19_ = worlds.gene_of(wk, "hg19")
        involved = {ident(g19_, m) for M, mi in planted for m in tables.allele_variants(g19_, M, mi)}
        involved |= {d[1][1] for d in devs if d[0] in ("set",)}
        asym = site_groups(wk)[1]
        tag = "/site-shared-on-one-strand-only" if len(involved & asym) >= 2 else ""
        if not close(r["hg19"][0], r["hg38"][0]):
            v.append(("builds/major-differs" + tag, f"{where}: hg19 {r['hg19'][0][:3]} vs hg38 {r['hg38'][0][:3]}"))
        elif not close(r["hg19"][1], r["hg38"][1]):
            try:
                self._run_table(wk, "hg19", planted, devs, gap, 1)
                s19 = self._optimal_readouts(self._last)
                self._run_table(wk, "hg38", planted, devs, gap, 1)
                s38 = self._optimal_readouts(self._last)
            except Exception:
                s19 = s38 = set()
            full = {"hg19": (None, []), "hg38": (None, [])}
            sc19 = sorted(round(x[0], 2) for x in r["hg19"][1])
            sc38 = sorted(round(x[0], 2) for x in r["hg38"][1])
            capped = len(full["hg19"][1]) >= 20 or len(full["hg38"][1]) >= 20      # more optimal refinements than enumerated
            tie = all(abs(a - b) <= 1e-2 for a, b in zip(sc19, sc38)) and len(sc19) == len(sc38) and \
                (capped or (all(x[1] in s38 for x in r["hg19"][1]) and all(x[1] in s19 for x in r["hg38"][1])))
            if tie:
                v.append(("builds/minor-tie-choice", f"{where}: equal scores {sc19}; hg19 reports {r['hg19'][1][:1]}, hg38 reports {r['hg38'][1][:1]}"))
            else:
                v.append(("builds/minor-differs" + tag, f"{where}: hg19 {r['hg19'][1][:2]} vs hg38 {r['hg38'][1][:2]}"))
        g19, g38 = worlds.gene_of(wk, "hg19"), worlds.gene_of(wk, "hg38")
        nontriv = g19.strand != g38.strand or bool(devs)
        return Outcome(v, key=(r["hg19"][0][0][1] if r["hg19"][0] else None, len(r["hg19"][1]), r["hg19"][2]), nontrivial=nontriv,
                       note={"planted": planted, "devs": devs, "major": r["hg19"][0][:2], "minor": r["hg19"][1][:1]})

    def _eval_e2e(self, st):
        from aldy.genotype import genotype
        from aldy.common import AldyException
        from .. import repo

        _, spec, comps, devs, gap = st
        repo.reset_debug_store()
        w = worlds.world(spec)
        d = worlds.tmpdir()
        ypath = w.yaml_file(d)
        out = {}
        for build in ("hg19", "hg38"):
            gene = worlds.gene_of(spec, build)
            sim = simreads.Simulator(w, build)
            import hashlib
            tag = hashlib.sha1(repr((spec, build)).encode()).hexdigest()[:8]
            ppath = os.path.join(d, f"c13prof_{tag}.bam")
            if not os.path.exists(ppath + ".bai"):
                simreads.write_bam(ppath, sim.profile_reads(100, 20))
            spath = os.path.join(d, f"c13s_{os.getpid()}_{build}.bam")
            simreads.write_bam(spath, sim.sample_reads(list(comps), 100, 20))
            try:
                res = genotype(ypath, spath, ppath, output_file=None, cn_region=w.neutral(build), genome=build, gap=gap)
                out[build] = sorted((round(s.score, 2), tuple(sorted(s.major_solution.cn_solution.solution.items())),
                                     tuple(sorted((a.major, a.minor, refseq_set(gene, a.added), refseq_set(gene, a.missing)) for a in s.solution)),
                                     s.get_major_diplotype()) for s in list(res.values())[0])
            except AldyException as ex:
                out[build] = [("error", str(ex)[:60])]
        v = []
        a, b = out["hg19"], out["hg38"]
        # with indel alleles the read tiling (which reads carry the indel near an end) differs between the
        # builds, i.e. the evidence itself is not identical: the calls must agree, the scores need not
        has_indel = any(op[:3] in ("ins", "del") for k, al in comps if isinstance(al, str)
                        for _, op in simreads.db_variants(w, al))
        same = len(a) == len(b) and all(x[1:] == y[1:] and (has_indel or x[0] == y[0] or abs(x[0] - y[0]) <= 1e-2) for x, y in zip(a, b))
        if not same:
            v.append(("builds/e2e-differs", f"{spec.strands} {comps}: hg19 {a[:2]} vs hg38 {b[:2]}"))
        return Outcome(v, key=("e2e", a[0][-1] if a else None), nontrivial=True, note={"sample": comps, "hg19": [x[-1] for x in a], "hg38": [x[-1] for x in b]})


E2E = (
    (("normal", "1.001"), ("normal", "2.002")),
    (("normal", "4.001"), ("normal", "7.001")),
    (("normal", "8.001"), ("normal", "9.001")),
    (("normal", "6.001"), ("normal", "5.001")),
    (("normal", "3.001"), ("del", None)),
    (("normal", "1.002"), ("normal", "10.001"), ("extra", "2.001")),
    (("left:e2", "2.002"), ("normal", "10.001")),
    (("right:e3", "14.001"), ("normal", "1.002")),
    (("left:i2", "13.001"), ("normal", "1.001"), ("extra", "1.001")),
    (("custom:e3,down", "15.001"), ("normal", "3.001")),
    (("normal", "16.001"), ("normal", "1.001")),
    (("normal", "2.001"), ("normal", "4.001")),
    (("normal", "18.001"), ("normal", "1.003")),      # variants on the last and on the first RefSeq base
    (("normal", "18.001"), ("normal", "18.001"), ("extra", "1.003")),
)

CHECK = C13
