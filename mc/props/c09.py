"""C09 — the star-allele catalogue is a consistent, build-independent partition.

(a) exhaustive: the 38 shipped databases x {hg19, hg38} and the toy database;
(b) BFS over generated allele tables: base tables are all pairs of allele names with all
    variant subsets of a menu (2 core + 2 silent variants); one transition adds a label,
    a structural suffix (deletion, bare left fusion, left fusion with own core variant,
    right fusion, custom partial deletion) to one allele, or a third allele.
Oracle: grouping computed directly from the YAML text in RefSeq terms (catalogue_ref
below) plus the invariants of the property; both builds (opposite strands) compared.
"""
import collections
import itertools

import yaml

from ..explore import Check, Outcome
from .. import worlds

NAMES = ("1.001", "1.002", "2.001", "2.002", "10.001", "1B.001")
LABELS = ("2", "1B", "10A")
SUFFIXES = ("deletion", "left", "left_core", "right", "custom", "left_i2")


def menu(seq):
    c1 = worlds.snv(seq, 150, None, "rs150", "functional")
    c2 = worlds.snv(seq, 330, None, "rs330", "functional")
    s1 = worlds.snv(seq, 230, None, "rs230")
    s2 = worlds.snv(seq, 520, None, "rs520")
    # index 4: the variant of index 1 WITHOUT a function label - re-curated databases disagree about a variant
    # (never used together with index 1 in one table)
    c2s = worlds.snv(seq, 330, None, "rs330")
    return [c1, c2, s1, s2, c2s]


def suffix_mutations(sfx, seq):
    m = menu(seq)
    return {
        "deletion": [["GEN", "deletion"]],
        "left": [["GENP", "e2-"]],
        "left_core": [["GENP", "e2-"], m[1]],
        "left_i2": [["GENP", "i2-"]],
        "right": [["GENP", "e3+"]],
        "custom": [["GEN", "deletion:e3,down"]],
    }[sfx]


def table_to_world(table, seqid=0):
    """table: ((name, variant index tuple, label|None, suffix|None), ...) -> WorldSpec"""
    seq = worlds.make_refseq(seqid)
    m = menu(seq)
    enc = []
    for name, vs, label, sfx in table:
        muts = [tuple(m[i]) for i in vs]
        if sfx:
            muts = [tuple(x) for x in suffix_mutations(sfx, seq)] + [x for x in muts if tuple(x) not in {tuple(y) for y in suffix_mutations(sfx, seq)}]
        enc.append((name, tuple(muts), f"GEN*{label}" if label else None))
    return worlds.WorldSpec(("+", "-"), True, False, seqid, tuple(enc))


# ------------------------------------------------------------------ reference
def yaml_alleles(yml, gene_name):
    """-> {db allele name: (structure key, [(pos, op, rs, fn)...])} for non-ignored alleles"""
    from aldy.common import allele_name
    out = collections.OrderedDict()
    for name, a in yml["alleles"].items():
        if name in ("random", "groups") or a.get("ignored", False):
            continue
        st = "1"
        vs = []
        groups = yml["alleles"].get("groups", {})
        for mut in a["mutations"]:
            pos, op, *info = mut
            if isinstance(pos, str) and pos == "ignored":
                continue
            if pos == gene_name and op == "deletion":
                st = ("del",)
            elif pos == gene_name and op.startswith("deletion:"):
                st = ("custom", frozenset(op[9:].split(",")))
            elif pos == gene_name and op in groups:
                continue
            elif isinstance(pos, str):
                if op[-1] == "-":
                    st = ("left", op[:-1])
                else:
                    st = ("right", op[:-1] if op[-1] == "+" else op)
            else:
                vs.append((pos, op, info))
        if st == ("del",):
            vs = []
        out[allele_name(name)] = (st, vs)
    return out


def documented_cn(g, stc):
    """Copy-number vector of a structure key (see yaml_alleles) from the documented meaning of the notation; regions are
    ordered along the gene by their own coordinates and the strand; zero-length regions carry no copies."""
    order = sorted(g.regions[0], key=lambda r_: (g.regions[0][r_].start, g.regions[0][r_].end), reverse=g.strand < 0)
    rk = {r_: i for i, r_ in enumerate(order)}
    has_p = len(g.regions) > 1
    kind_ = stc if stc == "1" else stc[0]
    want_cn = None
    if kind_ == "1":
        want_cn = [{r_: 1 for r_ in order}] + ([{r_: 1 for r_ in order}] if has_p else [])
    elif kind_ == "del":
        want_cn = [{r_: 0 for r_ in order}] + ([{r_: 1 for r_ in order}] if has_p else [])
    elif kind_ == "custom":
        want_cn = [{r_: int(r_ not in stc[1]) for r_ in order}] + ([{r_: 1 for r_ in order}] if has_p else [])
    elif kind_ == "left" and stc[1] in rk and has_p:
        want_cn = [{r_: int(rk[r_] >= rk[stc[1]]) for r_ in order}, {r_: int(rk[r_] < rk[stc[1]]) for r_ in order}]
    elif kind_ == "right" and stc[1] in rk and has_p:
        want_cn = [{r_: int(rk[r_] < rk[stc[1]]) for r_ in order}, {r_: 1 + int(rk[r_] >= rk[stc[1]]) for r_ in order}]
    if want_cn is not None:
        for gi_, x in enumerate(want_cn):
            for r_ in x:
                if r_ in g.regions[gi_] and g.regions[gi_][r_].end - g.regions[gi_][r_].start <= 0:
                    x[r_] = 0
    return want_cn


class C09(Check):
    id = "C09"
    rule = ("non-trivial: duplicate variant sets, equal core sets under different numbers, name or label collisions, or "
            "any structural allele; for shipped databases every database is non-trivial")
    assumptions = [
        "a variant's functional label is the one of its first definition in the file (tables use consistent labels)",
        "tables with two whole-gene deletion alleles, or with a label that is not a string, are outside the alphabet",
        "the allele number 1 is reserved for the default configuration: structural entries are only given to other alleles",
        "region vectors of zero-length regions may differ between builds (UGT1A1 utr5); configuration name and kind must agree",
    ]

    def bound(self):
        return 1 if self.tier == "quick" else 2

    def max_states(self):
        return 1500000

    def initial_states(self):
        from .. import repo
        yield ("db", ("toy",))
        for n in repo.shipped_gene_names():
            if not n.startswith("pharma"):
                yield ("db", ("shipped", n))
        for spec in worlds.rich_specs():
            if self.tier == "thorough" or spec.seqid == self.seed % 3:
                yield ("db", spec)
        # name-collision family: three or four alleles of one number with pairwise different core sets,
        # each optionally labelled with that number
        for names in (("1.001", "1.002", "1.003"), ("2.001", "2.002", "2.003", "2.004")):
            num = names[0].split(".")[0]
            cores = [(), (0,), (1,), (0, 1), (0, 2), (1, 3)]
            for vs in itertools.permutations(cores, len(names)):
                if len(names) == 4 and (hash(vs) + self.seed) % (12 if self.tier == "quick" else 2):
                    continue
                for labs in itertools.product((None, num), repeat=len(names)):
                    if len(names) == 4 and labs.count(num) not in (3, 4):
                        continue
                    yield ("table", tuple((n, v, l, None) for n, v, l in zip(names, vs, labs)))
        sets = [tuple(c) for k in range(0, 4) for c in itertools.combinations(range(4), k)]
        sets4 = [tuple(4 if i == 1 else i for i in c) for c in sets if 1 in c]     # the same subsets with the unlabelled twin
        for nm in itertools.combinations(NAMES, 2):
            for vs in itertools.product(sets, repeat=2):
                yield ("table", tuple((n, v, None, None) for n, v in zip(nm, vs)))
            for vs in itertools.product(sets4, repeat=2):
                if (hash(vs) + self.seed) % (4 if self.tier == "quick" else 1) == 0:
                    yield ("table", tuple((n, v, None, None) for n, v in zip(nm, vs)))

    def successors(self, st):
        if st[0] != "table":
            return
        table = st[1]
        if len(table) >= 3:
            return
        k = 0
        step = 4 if self.tier == "quick" else 1
        if self.tier == "thorough" and (len(table) > 2 or any(x[2] or x[3] for x in table)):
            step = 3       # second transition: a seed-rotated third
        for i, (n, v, lab, sfx) in enumerate(table):
            if lab is None:
                for l in LABELS:
                    k += 1
                    if k % step == self.seed % step:
                        yield (f"label {n}={l}", ("table", table[:i] + ((n, v, l, sfx),) + table[i + 1:]))
            if sfx is None and n.split(".")[0] != "1":     # "*1" is the reserved name of the default configuration
                for s in SUFFIXES:
                    if s == "deletion" and any(x[3] == "deletion" for x in table):
                        continue
                    k += 1
                    if k % step == self.seed % step:
                        yield (f"suffix {n}={s}", ("table", table[:i] + ((n, v, lab, s),) + table[i + 1:]))
        if len(table) < 3:
            used = {x[0] for x in table}
            for n in NAMES:
                if n in used or n < table[-1][0]:
                    continue
                for v in ((), (0,), (0, 2), (1,), (2,), (0, 1), (4,), (0, 4)):
                    if 4 in v and any(1 in x[1] for x in table):
                        continue
                    if 1 in v and any(4 in x[1] for x in table):
                        continue
                    k += 1
                    if k % step == self.seed % step:
                        yield (f"allele {n}", ("table", table + ((n, v, None, None),)))

    def canon(self, st):
        if st[0] == "table":
            return ("table", tuple(sorted(st[1], key=lambda x: x[0])))
        return st

    # ------------------------------------------------------------------
    def evaluate(self, st):
        from aldy.gene import Gene, CNConfigType

        v = []
        if st[0] == "db":
            wk = st[1]
            g19, g38 = worlds.gene_of(wk, "hg19"), worlds.gene_of(wk, "hg38")
            yml = g19._yml
        else:
            spec = table_to_world(st[1])
            w = worlds.World(spec)
            text = w.yaml_text()
            g19 = Gene(None, name="GEN", yml=text, genome="hg19")
            g38 = Gene(None, name="GEN", yml=text, genome="hg38")
            yml = yaml.safe_load(text)
        cats = []
        for g in (g19, g38):
            v += self.invariants(g, yml)
            cats.append(self.summary(g))
        if cats[0] != cats[1]:
            ks = [k for k in set(cats[0]) | set(cats[1]) if cats[0].get(k) != cats[1].get(k)]
            v.append(("builds/catalogue-differs", f"{ks[:2]}: hg19 {str(cats[0].get(ks[0]))[:300]} | hg38 {str(cats[1].get(ks[0]))[:300]}"))
        structural = any(al.cn_config != "1" for al in g19.alleles.values())
        dup = len(g19.removed) > 0
        nontriv = st[0] == "db" or structural or dup or any(x[2] for x in st[1]) or \
            len({x[1] for x in st[1]}) < len(st[1])
        key = (len(g19.alleles), sum(len(a.minors) for a in g19.alleles.values()), len(g19.cn_configs), len(g19.removed))
        return Outcome(v, key=key, nontrivial=nontriv,
                       note={"majors": list(g19.alleles)[:8], "configs": list(g19.cn_configs), "removed": dict(list(g19.removed.items())[:3])})

    def summary(self, g):
        def rs(ms):
            return tuple(sorted(g.get_refseq(m) for m in ms))
        out = {}
        for an, al in g.alleles.items():
            out["allele", an] = (al.cn_config, g.cn_configs[al.cn_config].kind.name if al.cn_config in g.cn_configs else None,
                                 rs(al.func_muts), tuple(sorted((mn, rs(mi.neutral_muts)) for mn, mi in al.minors.items())))
        for cn, c in g.cn_configs.items():
            out["config", cn] = (c.kind.name, tuple(sorted(c.alleles)))
        out["removed"] = tuple(sorted(g.removed.items()))
        out["tandems"] = tuple(g.common_tandems)
        return out

    def invariants(self, g, yml):
        from aldy.gene import CNConfigType

        v = []
        db = yaml_alleles(yml, g.name)
        label_of = {}
        for (gp, gop), (fn, rsid, rpos, opos, oop) in g.mutations.items():
            label_of[opos + 1, oop] = fn
        kd = {n: c.kind for n, c in g.cn_configs.items()}
        bare_left = set()
        # ---- every allele's configuration exists; core/silent split; duplicates
        seen_key = {}
        for an, al in g.alleles.items():
            if al.cn_config not in g.cn_configs:
                v.append(("catalogue/config-missing", f"{an} -> {al.cn_config}"))
                continue
            if an not in g.cn_configs[al.cn_config].alleles:
                v.append(("catalogue/config-allele-list", f"{an} not listed under configuration {al.cn_config}"))
            for m in al.func_muts:
                if g.mutations.get((m.pos, m.op), (None,))[0] is None:
                    v.append(("catalogue/silent-variant-in-core-set", f"{an}: {m}"))
            key = (al.cn_config, frozenset(al.func_muts))
            if key in seen_key:
                v.append(("catalogue/duplicate-major", f"{an} and {seen_key[key]} share structure and core variants"))
            seen_key[key] = an
            ms = collections.Counter(frozenset(mi.neutral_muts) for mi in al.minors.values())
            if any(c > 1 for c in ms.values()):
                v.append(("catalogue/duplicate-minor", f"{an}: two minors with the same variants"))
            for mn, mi in al.minors.items():
                for m in mi.neutral_muts:
                    if g.mutations.get((m.pos, m.op), (None,))[0] is not None:
                        v.append(("catalogue/core-variant-in-minor", f"{mn}: {m}"))
                if mi.name != mn:
                    v.append(("catalogue/minor-name", f"{mn} vs {mi.name}"))
        for cn, c in g.cn_configs.items():
            for a in c.alleles:
                if a not in g.alleles or g.alleles[a].cn_config != cn:
                    v.append(("catalogue/config-lists-foreign-allele", f"{cn}: {a}"))
        # ---- reference grouping from the YAML
        def core_of(vs):
            return frozenset((p, o) for p, o, info in vs if label_of.get((p, o)) is not None and (p, o) in label_of)

        def mapped(vs):
            return frozenset((p, o) for p, o, info in vs if (p, o) in label_of)

        groups = collections.defaultdict(list)
        for name, (stc, vs) in db.items():
            groups[stc, core_of(vs)].append(name)
        left_structs = {stc for (stc, core) in groups if isinstance(stc, tuple) and stc[0] == "left"}
        bare = {stc for stc in left_structs if (stc, frozenset()) in groups}
        # a left fusion is expanded into partial alleles only when its own allele has no core variants;
        # aldy decides that per configuration (first allele of the configuration)
        for name, (stc, vs) in db.items():
            reach = g.get_allele(name)
            hits = [an for an, a in g.alleles.items() if g.removed.get(name, name) in a.minors]
            is_bare_left = isinstance(stc, tuple) and stc[0] == "left" and not core_of(vs)
            if is_bare_left:
                continue
            if len(hits) != 1 or reach is None:
                v.append(("catalogue/not-reachable-once", f"database allele {name} is found in {hits} (get_allele -> {reach and reach[0].name})"))
                continue
            a, mi = reach
            got = frozenset((g.mutations[(m.pos, m.op)][3] + 1, g.mutations[(m.pos, m.op)][4]) for m in set(a.func_muts) | set(mi.neutral_muts))
            if got != mapped(vs):
                v.append(("catalogue/content", f"{name}: catalogue {sorted(got)} vs database {sorted(mapped(vs))}"))
            gotcore = frozenset((g.mutations[(m.pos, m.op)][3] + 1, g.mutations[(m.pos, m.op)][4]) for m in a.func_muts)
            if gotcore != core_of(vs):
                v.append(("catalogue/core-set", f"{name}: core {sorted(gotcore)} vs function-altering {sorted(core_of(vs))}"))
            want_kind = {"1": CNConfigType.DEFAULT, "del": CNConfigType.DELETION, "left": CNConfigType.LEFT_FUSION,
                         "right": CNConfigType.RIGHT_FUSION, "custom": CNConfigType.CUSTOM}[stc if stc == "1" else stc[0]]
            if kd.get(a.cn_config) != want_kind:
                v.append(("catalogue/structure-kind", f"{name}: configuration {a.cn_config} is {kd.get(a.cn_config)}, database says {stc}"))
            elif a.cn_config in g.cn_configs:
                # the copy-number vector of the configuration, from the documented meaning of the notation
                # (docs/database.rst): "brk-" = pseudogene regions before brk + gene regions from brk on; "brk+" = gene
                # regions before brk + pseudogene regions from brk on, next to a whole pseudogene copy; regions ordered
                # along the gene (by their own coordinates and the strand)
                want_cn = documented_cn(g, stc)
                if want_cn is not None:
                    got_cn = [dict(x) for x in g.cn_configs[a.cn_config].cn]
                    if got_cn != want_cn:
                        bad = [(gi_, r_, got_cn[gi_].get(r_), want_cn[gi_][r_]) for gi_ in range(min(len(got_cn), len(want_cn))) for r_ in want_cn[gi_] if got_cn[gi_].get(r_) != want_cn[gi_][r_]]
                        v.append(("catalogue/structure-copy-numbers", f"{name} ({stc}): configuration {a.cn_config} differs from the documented meaning at (gene index, region, got, want) {bad[:4]}"))
        # partition equality for non-partial majors
        want_part = set()
        for (stc, core), names in groups.items():
            if isinstance(stc, tuple) and stc[0] == "left" and not core:
                continue
            want_part.add(frozenset(names))
        got_part = set()
        for an, a in g.alleles.items():
            if "#" in an:
                continue
            members = set(a.minors) | {k for k, t in g.removed.items() if t in a.minors}
            got_part.add(frozenset(members))
        # a bare left fusion may stay a major allele of its own (when another fusion at the same break point carries
        # core variants it is not expanded into partial alleles); the property exempts it from the partition
        bare_names = {name for name, (stc, vs) in db.items() if isinstance(stc, tuple) and stc[0] == "left" and not core_of(vs)}
        got_part = {grp for grp in got_part if not grp <= bare_names}
        if want_part != got_part:
            v.append(("catalogue/grouping", f"majors group database alleles as {sorted(map(sorted, got_part))[:6]}, "
                                            f"(structure, core set) gives {sorted(map(sorted, want_part))[:6]}"))
        # ---- a left fusion none of whose database alleles has a core variant is expanded: one partial allele per
        #      distinct set of parent core variants the fusion retains, for every non-fused major allele
        plain = [(an, a) for an, a in g.alleles.items() if a.cn_config == "1" and "#" not in an]
        for cname, conf in g.cn_configs.items():
            if conf.kind != CNConfigType.LEFT_FUSION:
                continue
            dbn = [name for name, (stc, vs) in db.items() if isinstance(stc, tuple) and stc[0] == "left"
                   and documented_cn(g, stc) == [dict(x) for x in conf.cn]]
            if not dbn or any(core_of(db[n][1]) for n in dbn):
                continue

            def kept(m, conf=conf):
                r = g.region_at(m.pos)
                return bool(r) and conf.cn[r[0]][r[1]] > 0

            want_sets = {frozenset(m for m in a.func_muts if kept(m)) for _, a in plain}
            got_sets = {frozenset(a.func_muts) for an, a in g.alleles.items() if an.startswith(cname + "#")}
            if want_sets != got_sets:
                v.append(("partial/expansion", f"bare left fusion {dbn} (configuration {cname}): partial alleles carry {sorted(map(sorted, got_sets))[:4]}, "
                                               f"the retained parts of the non-fused majors are {sorted(map(sorted, want_sets))[:4]}"))
        # ---- partial alleles of bare left fusions
        for an, a in g.alleles.items():
            if "#" not in an:
                continue
            f, parent = an.split("#", 1)
            if f not in g.cn_configs or g.cn_configs[f].kind != CNConfigType.LEFT_FUSION:
                v.append(("partial/not-a-left-fusion", an))
                continue
            if parent not in g.alleles:
                v.append(("partial/unknown-parent", an))
                continue

            def retained(m):
                r = g.region_at(m.pos)
                return bool(r) and g.cn_configs[f].cn[r[0]][r[1]] > 0

            want = {m for m in g.alleles[parent].func_muts if retained(m)}
            if set(a.func_muts) != want:
                v.append(("partial/core-variants", f"{an}: {sorted(a.func_muts)} vs retained parent variants {sorted(want)}"))
            for mn, mi in a.minors.items():
                pm = mn.split("#", 1)[1]
                pr = g.get_allele(pm)
                if pr is None:
                    v.append(("partial/unknown-parent-minor", mn))
                    continue
                pa, pmi = pr
                if {m for m in pa.func_muts if retained(m)} != set(a.func_muts):
                    v.append(("partial/minor-under-wrong-partial", f"{mn} under {an}"))
                wantn = {m for m in pmi.neutral_muts if retained(m)}
                if set(mi.neutral_muts) != wantn:
                    v.append(("partial/minor-variants", f"{mn}: {sorted(mi.neutral_muts)} vs {sorted(wantn)}"))
        # every non-fused major must have a partial counterpart under each expanded fusion
        expanded = {an.split("#")[0] for an in g.alleles if "#" in an}
        for f in expanded:
            for an, a in g.alleles.items():
                if a.cn_config != "1":
                    continue
                for mn in a.minors:
                    if not any(f"{f}#{mn}" in b.minors or g.removed.get(f"{f}#{mn}") for bn, b in g.alleles.items() if bn.startswith(f + "#")):
                        # identical partial minors are merged silently (no alias for '#'-names): accept if an equal one exists
                        keep = {m for m in a.minors[mn].neutral_muts if g.region_at(m.pos) and g.cn_configs[f].cn[g.region_at(m.pos)[0]][g.region_at(m.pos)[1]] > 0}
                        corek = {m for m in a.func_muts if g.region_at(m.pos) and g.cn_configs[f].cn[g.region_at(m.pos)[0]][g.region_at(m.pos)[1]] > 0}
                        if not any(set(b.func_muts) == corek and any(set(x.neutral_muts) == keep for x in b.minors.values())
                                   for bn, b in g.alleles.items() if bn.startswith(f + "#")):
                            v.append(("partial/parent-without-partial", f"{mn} has no partial allele under fusion {f}"))
        return v


CHECK = C09
