"""C17 — a debug dump replays to the same result.

State = (world, build, sample, read length, paired, replay parameters).  Depth 0: samples of
the C01 kind (several structures, indels, both strands) and samples whose call depends on
read-phase evidence; one transition replays the archive with an extra parameter.  Each state
runs `aldy genotype --debug P -o out1` in a child process, then genotypes P.tar.gz (child
process for the output file, in-process for the solution objects).
"""
import os
import subprocess
import sys

from ..explore import Check, Outcome
from .. import worlds, simreads, repo

SAMPLES = (
    (("normal", "1.001"), ("normal", "2.002")),
    (("normal", "4.001"), ("normal", "7.001")),
    (("normal", "8.001"), ("normal", "9.001")),
    (("normal", "6.001"), ("normal", "5.001")),
    (("normal", "3.001"), ("del", None)),
    (("normal", "1.002"), ("normal", "10.001"), ("extra", "2.001")),
    (("left:e2", "2.002"), ("normal", "10.001")),
    (("right:e3", "14.001"), ("normal", "1.002")),
    (("left:i2", "13.001"), ("normal", "1.001"), ("extra", "1.001")),
    (("custom:e3,down", "15.001"), ("normal", "3.001")),
)


def phase_samples(w):
    """Haplotypes carrying a catalogued silent variant that no called allele defines: which copy
    receives it is decided by fragments spanning it and a defining variant."""
    s = w.seq
    v150 = tuple(worlds.snv(s, 150)[:2])
    v150b = (150, f"{s[149]}>{worlds.ALT2[s[149]]}")
    v331 = tuple(worlds.snv(s, 331)[:2])
    v231 = tuple(worlds.snv(s, 231)[:2])
    v170 = tuple(worlds.snv(s, 170)[:2])
    return (
        (("vars", (v150, v231)), ("vars", (v150b,))),        # 231 travels with *2, not with *3
        (("vars", (v150,)), ("vars", (v150b, v231))),        # ... and the other way round
        (("vars", (v170, v331)), ("vars", (v150,))),
        (("vars", (v170,)), ("vars", (v150, v331)), ("xvars", (v150b,))),
    )


class C17(Check):
    id = "C17"
    rule = "every sample is non-trivial (variant alleles, indels, structures or phase-dependent assignments)"
    assumptions = [
        "scores are compared within the documented solution precision 1e-2, everything else exactly; output files byte for byte",
        "the original run and the replay run in separate child processes through the command line; the solution objects are additionally compared in-process",
    ]

    def bound(self):
        return 1

    def specs(self):
        a = [worlds.WorldSpec(("+", "-"), True, False, 0, "rich")]
        if self.tier == "thorough":
            a += [worlds.WorldSpec(("-", "+"), True, True, 1, "rich"), worlds.WorldSpec(("-", "-"), False, False, 2, "rich")]
        return a

    def initial_states(self):
        n = 0
        for spec in self.specs():
            w = worlds.world(spec)
            for build in ("hg19", "hg38"):
                for comps in SAMPLES:
                    if not spec.pseudo and any(k.split(":")[0] in ("left", "right") for k, _ in comps):
                        continue
                    n += 1
                    if self.tier == "quick" and (n + self.seed) % 2 and build == "hg38":
                        continue
                    yield (spec, build, comps, 100, False, ())
                for comps in phase_samples(w):
                    yield (spec, build, comps, 150, True, ())
                    if self.tier == "thorough":
                        yield (spec, build, comps, 100, False, ())
        if self.tier == "thorough":
            yield ("NA10860", "hg19", (), 0, False, ())

    def successors(self, st):
        spec, build, comps, rl, paired, params = st
        if params or spec == "NA10860":
            return
        if comps in SAMPLES[:3] or paired:
            yield ("gap=0.3", (spec, build, comps, rl, paired, (("gap", "0.3"),)))
            # a parameter whose effect is unmistakable: no variant can pass the filters
            yield ("min_coverage=1000", (spec, build, comps, rl, paired, (("min_coverage", "1000"),)))
            # the no-data guard with the caller's value: both runs must refuse (the archive carries the default)
            yield ("min_avg_coverage=1000", (spec, build, comps, rl, paired, (("min_avg_coverage", "1000"),)))
            if len(comps) == 2:     # with three phased copies the enumeration of tied refinements takes minutes
                yield ("max_minor_solutions=3", (spec, build, comps, rl, paired, (("max_minor_solutions", "3"),)))
            if paired:
                yield ("phase=false", (spec, build, comps, rl, paired, (("phase", "false"),)))

    def evaluate(self, st):
        from aldy.genotype import genotype
        from aldy.common import AldyException

        spec, build, comps, rl, paired, params = st
        d = os.path.join(worlds.tmpdir(), f"c17_{os.getpid()}")
        os.makedirs(d, exist_ok=True)
        env = dict(os.environ, PYTHONPATH=repo.REPO, PYTHONHASHSEED="0")
        if spec == "NA10860":
            res_dir = os.path.join(repo.REPO, "aldy", "tests", "resources")
            spath = os.path.join(res_dir, "NA10860.bam")
            gene_arg, prof_args, gname = "CYP2D6", ["-p", "pgx2"], "CYP2D6"
            genome = []
        else:
            w = worlds.world(spec)
            sim = simreads.Simulator(w, build)
            ypath = w.yaml_file(d)
            ppath = os.path.join(d, f"prof_{build}_{rl}.bam")
            if not os.path.exists(ppath + ".bai"):
                simreads.write_bam(ppath, sim.profile_reads(rl, 20))
            reads = []
            for i, comp in enumerate(comps):
                r = sim.component(comp, rl, 20, f"c{i}")
                reads += simreads.pair_up(r, 2 * rl + 120) if paired else r
            for c in range(2):
                reads += sim.neutral(rl, 20, f"n{c}")
            if w.spec.pseudo:
                # a few reads with a deletion in the pseudogene, i.e. outside the RefSeq-mapped part
                p0 = w.offs(build)[1] - 1
                for k in range(6):
                    st_ = p0 + 120 + 7 * k
                    reads.append((f"pdel{k}", st_, sim.G[st_:st_ + 30] + sim.G[st_ + 33:st_ + 63], "30M3D30M"))
            spath = os.path.join(d, "sample.bam")
            simreads.write_bam(spath, reads)
            nr = w.neutral(build)
            gene_arg, prof_args, gname = ypath, ["-p", ppath, "-n", f"7:{nr.start}-{nr.end}"], "GEN"
            genome = ["--genome", build]
        pre = os.path.join(d, "dbg")
        for f in (pre + ".tar.gz", os.path.join(d, "out1.aldy"), os.path.join(d, "out2.aldy")):
            if os.path.exists(f):
                os.remove(f)
        pargs = [x for k, v_ in params for x in ("--param", f"{k}={v_}")]
        base = [sys.executable, "-W", "ignore", "-m", "aldy", "genotype", "-v", "critical", "-g", gene_arg]
        # the archive is always written by a run WITHOUT the extra parameters; they are given on the replay
        # and, for comparison, to a direct run on the alignments
        r1 = subprocess.run(base + prof_args + genome + ["--debug", pre, "-o", os.path.join(d, "out0.aldy" if pargs else "out1.aldy"), spath],
                            env=env, cwd=d, capture_output=True, text=True)
        if pargs:
            r1 = subprocess.run(base + prof_args + genome + pargs + ["-o", os.path.join(d, "out1.aldy"), spath],
                                env=env, cwd=d, capture_output=True, text=True)
        v = []
        if not os.path.exists(pre + ".tar.gz"):
            return Outcome([("dump/no-archive", f"{comps}: archive not written; {r1.stderr[-300:]}")], key=("noarchive",), nontrivial=True)
        r2 = subprocess.run(base + pargs + ["-o", os.path.join(d, "out2.aldy"), pre + ".tar.gz"],
                            env=env, cwd=d, capture_output=True, text=True)
        o1 = open(os.path.join(d, "out1.aldy")).read() if os.path.exists(os.path.join(d, "out1.aldy")) else None
        o2 = open(os.path.join(d, "out2.aldy")).read() if os.path.exists(os.path.join(d, "out2.aldy")) else None
        where = f"{comps} rl={rl} paired={paired} params={params} {build}"
        if o1 != o2:
            l1, l2 = (o1 or "").splitlines(), (o2 or "").splitlines()
            diff = [(a, b) for a, b in zip(l1 + [""] * len(l2), l2 + [""] * len(l1)) if a != b][:2]
            v.append(("dump/output-file-differs", f"{where}: {len(l1)} vs {len(l2)} lines; first difference {diff}; replay stderr {r2.stderr[-200:]}"))
        if o1 is not None and not [l for l in o1.splitlines() if l and not l.startswith("#")] and not any(k == "min_avg_coverage" for k, _ in params):
            v.append(("dump/original-run-empty", f"{where}: {r1.stderr[-300:]}"))
        # in-process comparison of the solution objects
        kw = {k: v_ for k, v_ in params}

        def run(path, **extra):
            try:
                if spec == "NA10860":
                    res = genotype("CYP2D6", path, extra.pop("profile", None), output_file=None, **kw)
                else:
                    res = genotype(gene_arg, path, extra.pop("profile", None), output_file=None, **extra, **kw)
                out = []
                for s in list(res.values())[0]:
                    out.append((round(s.score, 6), tuple(sorted(s.major_solution.cn_solution.solution.items())),
                                round(s.major_solution.cn_solution.score, 6),
                                tuple(sorted((a.major, a.minor, tuple(sorted(a.added)), tuple(sorted(a.missing))) for a in s.solution)),
                                s.get_major_diplotype(), s.get_minor_diplotype()))
                return out
            except AldyException as ex:
                return ("error", str(ex)[:80])

        if spec == "NA10860":
            a = run(spath, profile="pgx2")
        else:
            a = run(spath, profile=ppath, cn_region=w.neutral(build), genome=build)
        b = run(pre + ".tar.gz")
        if isinstance(a, tuple) or isinstance(b, tuple):
            if a != b:
                v.append(("dump/solutions-differ", f"{where}: original {a}, replay {b}"))
        else:
            if [x[1:2] + x[3:] for x in a] != [x[1:2] + x[3:] for x in b]:
                v.append(("dump/solutions-differ", f"{where}: original {[x[5] for x in a]}, replay {[x[5] for x in b]}"))
            elif any(abs(x[0] - y[0]) > 1e-2 or abs(x[2] - y[2]) > 1e-2 for x, y in zip(a, b)):
                v.append(("dump/scores-differ", f"{where}: {[(x[0], x[2]) for x in a]} vs {[(y[0], y[2]) for y in b]}"))
        # evidence level: the replayed sample must hold the evidence of the original run
        if not params and spec != "NA10860":
            from aldy.sam import Sample
            from aldy.profile import Profile
            from aldy.gene import Gene
            g1 = Gene(gene_arg, genome=build)
            s1 = Sample(g1, Profile.load(g1, ppath, w.neutral(build)), spath)
            g2 = Gene(gene_arg, genome=build)
            s2 = Sample(g2, None, pre + ".tar.gz")
            d1 = {p_: {o_: len(l_) for o_, l_ in x.items()} for p_, x in s1.coverage._coverage.items()}
            d2 = {p_: {o_: len(l_) for o_, l_ in x.items()} for p_, x in s2.coverage._coverage.items()}
            if d1 != d2:
                bad = [(p_, d1.get(p_), d2.get(p_)) for p_ in sorted(set(d1) | set(d2)) if d1.get(p_) != d2.get(p_)][:3]
                v.append(("dump/evidence-differs", f"{where}: (position, original, replay) {bad}"))
            r1c = {k_: round(x_, 6) for k_, x_ in s1.coverage._region_coverage.items()}
            r2c = {k_: round(x_, 6) for k_, x_ in s2.coverage._region_coverage.items()}
            if r1c != r2c:
                v.append(("dump/region-depth-differs", f"{where}: {[(k_, r1c[k_], r2c.get(k_)) for k_ in r1c if r1c[k_] != r2c.get(k_)][:3]}"))
        # sample name
        if o1 and o2:
            n1 = {l.split("\t")[0] for l in o1.splitlines() if l and not l.startswith("#")}
            n2 = {l.split("\t")[0] for l in o2.splitlines() if l and not l.startswith("#")}
            if n1 != n2:
                v.append(("dump/sample-name", f"{n1} vs {n2}"))
        key = (a[0][5] if isinstance(a, list) and a else str(a)[:40], len(a) if isinstance(a, list) else 0)
        return Outcome(v, key=key, nontrivial=True,
                       note={"sample": str(comps)[:200], "params": params, "original": [x[5] for x in a] if isinstance(a, list) else a})


CHECK = C17
