"""C05 — the ILP layer returns true optima and exact linearisations.

Alphabet: models of aldy's shape built through `aldy.lpinterface.model` (binaries, free or
bounded error terms tied by equalities written as two inequalities, cardinality,
ordering chain, linear penalties), the `prod` and `abssum` helpers, and variable names
that collide after escaping.  Oracle: enumeration of all 2^n binary assignments with the
objective evaluated in closed form (`mc/ref/ilp_ref.py`).  Deviations: one more model
feature per BFS level.
"""
import itertools

from ..explore import Check, Outcome
from ..ref import ilp_ref

TOL = 1e-4
TARGETS = (0, 0.5, 1, 1.4, 2)
PENS = ("zero", "tenth", "mixed", "fine")


def pen_vector(kind, n):
    if kind == "zero":
        return (0.0,) * n
    if kind == "tenth":
        return (0.1,) * n
    if kind == "fine":      # near-ties: objectives that differ by less than the solution precision
        return tuple([0.0, 0.004, 0.009, 0.002, 0.0005, 0.006][:n])
    return tuple([1.0, 0.1, 0.0, 0.5, 0.3, 0.7][:n])


# kind of variable-free constraint -> does the model stay feasible
CONST_KINDS = {"py_true": True, "py_false": False, "pysum_ge1": False, "pysum_le1": True, "quicksum_ge1": False,
               "quicksum_le1": True, "quicksum_ge0": True, "quicksum_le_m1": False}


def add_constant_constraint(m, which):
    if which == "py_true":
        m.addConstr(0 <= 1, name="K")
    elif which == "py_false":
        m.addConstr(0 >= 1, name="K")
    elif which == "pysum_ge1":
        m.addConstr(sum(x for x in []) >= 1, name="K")
    elif which == "pysum_le1":
        m.addConstr(sum(x for x in []) <= 1, name="K")
    elif which == "quicksum_ge1":
        m.addConstr(m.quicksum([]) >= 1, name="K")
    elif which == "quicksum_le1":
        m.addConstr(m.quicksum([]) <= 1, name="K")
    elif which == "quicksum_ge0":
        m.addConstr(m.quicksum(x for x in []) >= 0, name="K")
    elif which == "quicksum_le_m1":
        m.addConstr(m.quicksum([]) <= -1, name="K")
    else:
        raise ValueError(which)


def coeff_vectors(n):
    return [v for v in itertools.product((0, 1), repeat=n) if any(v)]


class C05(Check):
    id = "C05"
    rule = ("model family: a state is non-trivial when the optimum is not unique or lies above 0 "
            "or the model is infeasible or more than one solution is within the gap; helper "
            "families: every assignment is distinct")
    assumptions = [
        "CBC (OR-Tools) is the environment whose answers aldy consumes; the Gurobi backend is not installed",
        "tolerance 1e-4 on objectives; within-gap membership is only required below bound-1e-4 and only forbidden above bound+1e-4",
        "objectives are non-negative, as in every model aldy builds",
    ]

    def bound(self):
        return 2 if self.tier == "quick" else 3

    def max_states(self):
        return 400000

    # ---------------------------------------------------------------- states
    # ("model", n, rows, card, chain, pen, gap, limit, ebound)
    #    rows = ((coeffs, target), ...)
    # ("prod", factors, sense)             factors = tuple of 0/1
    # ("abs", values, coeffs)
    # ("names", names)                     tuple of raw variable names
    def initial_states(self):
        ns = (2, 3) if self.tier == "quick" else (2, 3, 4)
        for n in ns:
            for cv in coeff_vectors(n):
                for t in TARGETS:
                    yield ("model", n, ((cv, t),), None, False, "zero", 0.0, None, None)
        if self.tier == "quick":
            # seed-rotated slice of the n=4 base models (the thorough tier has all of them)
            base4 = [(cv, t) for cv in coeff_vectors(4) for t in TARGETS]
            for i, (cv, t) in enumerate(base4):
                if i % 5 == self.seed % 5:
                    yield ("model", 4, ((cv, t),), None, False, "zero", 0.0, None, None)
        for k in range(1, 5):
            for f in itertools.product((0, 1), repeat=k):
                for sense in ("min", "max"):
                    yield ("prod", f, sense)
        for k in range(1, 5 if self.tier == "thorough" else 4):
            for vals in itertools.product((-1.5, 0.0, 2.0), repeat=k):
                for cs in itertools.product((1, 2), repeat=k):
                    yield ("abs", vals, cs)
        # models in which one variable of the usual name is a general integer (0..2), not a binary
        for n in (2, 3):
            for which in range(n):
                for cv in coeff_vectors(n):
                    for t in (1, 2, 3):
                        yield ("intmix", n, which, cv, t)
        # constraints whose expression has no variable left (an empty sum compared with a constant - what the
        # cardinality rows of aldy's models become when no candidate allele is left for a configuration)
        for n in (2, 3):
            for cv in coeff_vectors(n):
                for t in (1, 2):
                    for which in CONST_KINDS:
                        yield ("const", n, cv, t, which)
        menu = ilp_ref.NAME_MENU
        for a in menu:
            yield ("names", (a,))
        for a, b in itertools.permutations(menu, 2):
            yield ("names", (a, b))
        if self.tier == "thorough":
            for tr in itertools.permutations(menu[:7], 3):
                yield ("names", tr)
        if self.tier == "thorough":
            for n in (5, 6):
                for cv in coeff_vectors(n):
                    if sum(cv) in (2, 3):
                        for t in (1, 1.4, 2):
                            yield ("model", n, ((cv, t),), 2, True, "mixed", 0.5, None, None)

    def successors(self, st):
        if st[0] != "model":
            return
        _, n, rows, card, chain, pen, gap, limit, eb = st
        ndev = (card is not None) + bool(chain) + (pen != "zero") + (gap != 0.0) + (limit is not None) + (eb is not None) + len(rows) - 1
        if ndev >= 2 and n > 2:
            return      # a third feature only on two-binary models
        if n >= 5:
            return
        if card is None:
            for k in (1, 2):
                if k <= n:
                    yield (f"card={k}", ("model", n, rows, k, chain, pen, gap, limit, eb))
        if not chain:
            yield ("chain", ("model", n, rows, card, True, pen, gap, limit, eb))
        if pen == "zero":
            for p in PENS[1:]:
                yield (f"pen={p}", ("model", n, rows, card, chain, p, gap, limit, eb))
        if gap == 0.0:
            for g in (0.1, 0.5):
                yield (f"gap={g}", ("model", n, rows, card, chain, pen, g, limit, eb))
        if limit is None:
            yield ("limit=2", ("model", n, rows, card, chain, pen, gap, 2, eb))
        if eb is None:
            yield ("ebound=1", ("model", n, rows, card, chain, pen, gap, limit, 1.0))
        if len(rows) < 3:
            for cv in coeff_vectors(n):
                for t in (0.5, 1, 2):
                    if (cv, t) > rows[-1]:
                        yield (f"row={cv},{t}", ("model", n, rows + ((cv, t),), card, chain, pen, gap, limit, eb))

    # ---------------------------------------------------------------- evaluation
    def evaluate(self, st):
        kind = st[0]
        if kind == "model":
            return self._eval_model(st)
        if kind == "prod":
            return self._eval_prod(st)
        if kind == "abs":
            return self._eval_abs(st)
        if kind == "intmix":
            return self._eval_intmix(st)
        if kind == "const":
            return self._eval_const(st)
        return self._eval_names(st)

    def _eval_const(self, st):
        """Base model (one equality row, penalty 0.1 per binary) plus one variable-free constraint: a true one changes
        nothing, a false one makes the model infeasible (nothing may be yielded)."""
        _, n, cv, t, which = st
        base = ("model", n, ((cv, t),), None, False, "tenth", 0.5, None, None)
        m, X = self._build(base, before_objective=lambda m: add_constant_constraint(m, which))
        names = [m.varName(x) for x in X]
        ys = [(status, obj, tuple(sol)) for status, obj, sol in m.solutions(0.5)]
        v = []
        if CONST_KINDS[which]:
            table = ilp_ref.enumerate_model(n, ((cv, t),), None, False, pen_vector("tenth", n), None)
            v = [("const/" + sig, msg) for sig, msg in ilp_ref.judge_enumeration(table, names, ys, 0.5, None, TOL)]
        elif ys:
            v.append(("const/solution-for-infeasible", f"{st}: a constant-false constraint was added, yet {ys[:2]} is yielded"))
        return Outcome(v, key=("const", which, len(ys)), nontrivial=True, note={"model": st, "yields": [(round(o, 3), s2) for _, o, s2 in ys][:3]})

    def _eval_intmix(self, st):
        """X_which is an integer in 0..2; a solution names the binaries set to 1 only, and the exclusion cut ranges
        over binaries only."""
        from aldy import lpinterface

        _, n, which, cv, t = st
        m = lpinterface.model("verif", "any")
        X = [m.addVar(vtype="I", lb=0, ub=2, name=f"X_{j}") if j == which else m.addVar(vtype="B", name=f"X_{j}") for j in range(n)]
        e = m.addVar(lb=-m.INF, ub=m.INF, name="E_0")
        expr = m.quicksum(X[j] for j in range(n) if cv[j])
        m.addConstr(expr + e <= t, name="C_0")
        m.addConstr(expr + e >= t, name="C_0")
        m.setObjective(m.abssum([e]) + m.quicksum(0.1 * X[j] for j in range(n)))
        names = [m.varName(x) for x in X]
        ys = [(o, tuple(s)) for _, o, s in m.solutions(0.5)]
        v = []
        # closed form over all assignments (integer variable in 0..2)
        table = {}
        for x in itertools.product(*[(0, 1, 2) if j == which else (0, 1) for j in range(n)]):
            table[x] = abs(t - sum(a * b for a, b in zip(cv, x))) + 0.1 * sum(x)
        best = min(table.values())
        if not ys or abs(ys[0][0] - best) > TOL:
            v.append(("intmix/first-not-optimal", f"{st}: yields {ys[:2]}, optimum {best}"))
        seen = set()
        for o, s in ys:
            if names[which] in s:
                v.append(("intmix/integer-listed-as-binary", f"{st}: {s}"))
            act = tuple(sorted(s))
            if act in seen:
                v.append(("intmix/duplicate", f"{st}: {s}"))
            seen.add(act)
            # the yielded binary pattern must admit an integer value with exactly this objective
            ok = any(abs(val - o) <= TOL for x, val in table.items()
                     if all((x[j] == (1 if names[j] in s else 0)) for j in range(n) if j != which))
            if not ok:
                v.append(("intmix/wrong-objective", f"{st}: {s} with {o}"))
            if o > 1.5 * best + TOL + 1e-5:
                v.append(("intmix/outside-gap", f"{st}: {o} > 1.5*{best}"))
        return Outcome(v, key=("intmix", len(ys), round(best, 2)), nontrivial=True, note={"model": st, "yields": ys[:3]})

    def _build(self, st, before_objective=None):
        from aldy import lpinterface

        _, n, rows, card, chain, pen, gap, limit, eb = st
        m = lpinterface.model("verif", "any")
        X = [m.addVar(vtype="B", name=f"X_{j}") for j in range(n)]
        errs = []
        for i, (cv, t) in enumerate(rows):
            if eb is None:
                e = m.addVar(lb=-m.INF, ub=m.INF, name=f"E_{i}")
            else:
                e = m.addVar(lb=-eb, ub=eb, name=f"E_{i}")
            expr = m.quicksum(X[j] for j in range(n) if cv[j])
            m.addConstr(expr + e <= t, name=f"C_{i}")
            m.addConstr(expr + e >= t, name=f"C_{i}")
            errs.append(e)
        if card is not None:
            s = m.quicksum(X)
            m.addConstr(s <= card, name="CARD")
            m.addConstr(s >= card, name="CARD")
        if chain:
            for j in range(1, n):
                m.addConstr(X[j] <= X[j - 1], name=f"CORD_{j}")
        if before_objective:
            before_objective(m)
        pv = pen_vector(pen, n)
        obj = m.abssum(errs) + m.quicksum(pv[j] * X[j] for j in range(n))
        m.setObjective(obj)
        return m, X

    def _eval_model(self, st):
        _, n, rows, card, chain, pen, gap, limit, eb = st
        m, X = self._build(st)
        names = [m.varName(x) for x in X]
        ys = []
        for status, obj, sol in m.solutions(gap, limit=limit):
            ys.append((status, obj, tuple(sol)))
        table = ilp_ref.enumerate_model(n, rows, card, chain, pen_vector(pen, n), eb)
        v = ilp_ref.judge_enumeration(table, names, ys, gap, limit, TOL)
        feas = [o for o in table.values() if o is not None]
        best = min(feas) if feas else None
        within = [o for o in feas if o <= (1 + gap) * best + TOL] if feas else []
        nontriv = (not feas) or best > TOL or len(within) > 1
        key = ("model", len(ys), None if best is None else round(best, 3), len(within))
        return Outcome(v, key=key, nontrivial=nontriv,
                       note={"yielded": [(round(o, 4), s) for _, o, s in ys][:6], "ref_best": best})

    def _eval_prod(self, st):
        from aldy import lpinterface

        _, factors, sense = st
        m = lpinterface.model("verif", "any")
        F = [m.addVar(vtype="B", name=f"F_{i}") for i in range(len(factors))]
        for f, val in zip(F, factors):
            m.addConstr(f <= val, name="FIX")
            m.addConstr(f >= val, name="FIX")
        r = m.addVar(vtype="B", name="R")
        r2 = m.prod(r, F)
        m.setObjective(r2, method=sense)
        v = []
        want = int(all(factors))
        try:
            status, obj = m.solve()
            got = m.getValue(r)
            if status != "optimal" or int(got) != want or abs(obj - want) > TOL:
                v.append(("helper/prod-not-and", f"factors {factors} {sense}: status {status} product={got} obj={obj}, AND={want}"))
        except lpinterface.NoSolutionsError:
            v.append(("helper/prod-infeasible", f"factors {factors} {sense}: product helper made a consistent point infeasible"))
            got = None
        return Outcome(v, key=("prod", want, got is not None and int(got)), nontrivial=True, note={"and": want, "got": got})

    def _eval_abs(self, st):
        from aldy import lpinterface

        _, vals, cs = st
        m = lpinterface.model("verif", "any")
        V = []
        coeffs = {}
        for i, (val, c) in enumerate(zip(vals, cs)):
            x = m.addVar(lb=-m.INF, ub=m.INF, name=f"E_{i}")
            m.addConstr(x <= val, name="FIX")
            m.addConstr(x >= val, name="FIX")
            V.append(x)
            if c != 1:
                coeffs[m.varName(x)] = c
        m.setObjective(m.abssum(V, coeffs=coeffs))
        status, obj = m.solve()
        want = sum(c * abs(val) for val, c in zip(vals, cs))
        v = []
        if status != "optimal" or abs(obj - want) > TOL:
            v.append(("helper/abssum-not-abs", f"values {vals} coeffs {cs}: status {status} objective {obj}, expected {want}"))
        return Outcome(v, key=("abs", round(want, 3), round(obj, 3)), nontrivial=True, note={"want": want, "got": obj})

    def _eval_names(self, st):
        from aldy import lpinterface

        _, raw = st
        m = lpinterface.model("verif", "any")
        X = [m.addVar(vtype="B", name=nm) for nm in raw]
        names = [m.varName(x) for x in X]
        v = []
        if len(set(names)) != len(names):
            v.append(("names/collision", f"raw names {raw} escape to {names}: two variables share a name"))
        # the i-th variable alone is forced to 1: the solution must name exactly it
        k = len(raw) - 1
        for i, x in enumerate(X):
            m.addConstr(x <= (1 if i == k else 0), name="FIX")
            m.addConstr(x >= (1 if i == k else 0), name="FIX")
        m.setObjective(m.quicksum(X))
        ys = [s for _, _, s in m.solutions(0)]
        if len(set(names)) == len(names) and (not ys or tuple(ys[0]) != (names[k],)):
            v.append(("names/solution-misnamed", f"raw {raw}: forced variable {names[k]}, solution reports {ys[:1]}"))
        for nm in names:
            if any(c in nm for c in ".-#>"):
                v.append(("names/unescaped", f"{nm}"))
        return Outcome(v, key=("names", tuple(names)), nontrivial=len(set(ilp_ref.plain_escape(r) for r in raw)) < len(raw),
                       note={"raw": raw, "escaped": names})


CHECK = C05
