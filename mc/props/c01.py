"""C01 — error-free reads from a catalogued genotype are called as that genotype.

State = (world, build, components, read length, depth per copy, indel normalisation).
Depth 0: every pair of catalogued minors (and every minor next to a whole-gene deletion);
one transition adds an extra gene copy, or replaces the second haplotype by a fused /
partially deleted copy.  The sample is simulated (mc/simreads.py), written as an indexed BAM
and genotyped by aldy.genotype.genotype() against a simulated two-copy profile.
"""
import collections
import os

from ..explore import Check, Outcome
from .. import worlds, simreads
from ..ref import cn_ref

RLS = (100, 50, 150, 250)
DEPTHS = (20, 30)


def plain_minors(w):
    out = []
    for name, a in w.alleles.items():
        if all(isinstance(m[0], int) for m in a["mutations"]):
            out.append(name.split("*")[1])
    return out


def structural(w):
    """(component kind, allele) for the catalogued structural alleles of the rich table."""
    out = []
    if w.spec.pseudo:
        out += [("left:i2", "13.001"), ("right:e3", "14.001")]
    out += [("custom:e3,down", "15.001")]
    return out


def planted_variants(w, gene, comp):
    """-> (configuration name, set of (gpos, gop) the copy shows), or None for a deleted copy."""
    kind, allele = comp
    inv = {(v[3] + 1, v[4]): k for k, v in gene.mutations.items()}
    if kind == "del":
        return None
    var = {inv[(p, o)] for p, o in simreads.db_variants(w, allele)}
    if kind in ("normal", "extra"):
        return ("1", var)
    cfg = None
    if kind.startswith("left:"):
        brk = kind[5:]
        for n, c in gene.cn_configs.items():
            if c.kind.name == "LEFT_FUSION" and c.cn[0][brk] == 1 and list(c.cn[0].values()).count(1) == \
                    len([r for r in c.cn[0] if list(c.cn[0]).index(r) >= list(c.cn[0]).index(brk)]):
                cfg = n
    elif kind.startswith("right:"):
        brk = kind[6:]
        for n, c in gene.cn_configs.items():
            if c.kind.name == "RIGHT_FUSION" and c.cn[0][brk] == 0:
                cfg = n
    else:
        for n, c in gene.cn_configs.items():
            if c.kind.name == "CUSTOM":
                cfg = n
    keep = set()
    for m in var:
        r = gene.region_at(m[0])
        if r and gene.cn_configs[cfg].cn[r[0]][r[1]] > 0:
            keep.add(m)
    return (cfg, keep)


class C01(Check):
    id = "C01"
    rule = ("non-trivial: the genotype has a variant allele, an indel, more or fewer than two copies, or a fusion; "
            "distinct (world, genotype, read length, depth, indel placement) are distinct states")
    assumptions = [
        "perfect aligner: reads carry their true alignment; reads crossing a fusion junction are emitted as two soft-clipped pieces",
        "the premise (planted structure is an optimal explanation of the region depths aldy computed) is evaluated with mc/ref/cn_ref.py; premise-false cases are counted, not judged",
        "fused copies carry the variants of a catalogued allele that lie in the retained regions; right-fused copies carry no variants",
        "indel placement as written in the database, or left-/right-normalised as an aligner would (exhaustively all three)",
    ]

    def bound(self):
        return 1 if self.tier == "quick" else 2

    def max_states(self):
        return 60000

    def specs(self):
        allspecs = worlds.rich_specs()
        if self.tier == "thorough":
            # every strand pair x pseudogene x alignment-indel combination once (sequence rotates)
            return [s for i, s in enumerate(allspecs) if s.seqid == (i // 3) % 3]
        if self.tier == "quick":
            k = self.seed % 6
            pick = [s for i, s in enumerate(allspecs) if i % 6 == k]
            # always both strands, with and without a pseudogene
            return pick[:4]
        return allspecs

    def initial_states(self):
        n = 0
        for spec in self.specs():
            w = worlds.world(spec)
            mins = plain_minors(w)
            builds = (("hg19", "hg38")[n % 2],)
            for build in builds:
                for i, a in enumerate(mins):
                    for b in mins[i:]:
                        n += 1
                        if self.tier == "quick" and n % 4 != self.seed % 4 and not (a == "1.001" or a == b):
                            continue
                        rl = RLS[n % 4] if self.tier == "quick" else 100
                        dp = DEPTHS[n % 2]
                        sh = (0, -1, 1)[n % 3]
                        yield (spec, build, (("normal", a), ("normal", b)), rl, dp, sh)
                    yield (spec, build, (("normal", a), ("del", None)), 100, 20, 0)
                if spec.pseudo:     # without a pseudogene a double deletion leaves no read in the locus (C19's subject)
                    yield (spec, build, (("del", None), ("del", None)), 100, 20, 0)
                yield (spec, build, (("normal", "1.001"),) * 2, 250, 30, 0)
        yield from self.edge_states()
        yield from self.noindelpost_states()
        yield from self.shipped_states()

    def noindelpost_states(self):
        """The documented fallback `--param indelpost=false`: catalogued indels are then matched through the table of
        equivalent placements instead of being realigned; heterozygous and homozygous carriers, every placement."""
        spec = worlds.WorldSpec(("+", "-"), True, False, 0, "rich")
        k = 0
        for build in ("hg19", "hg38"):
            for a in ("4.001", "6.001", "7.001", "8.001", "9.001"):
                for b in ("1.001", a, "2.002"):
                    for sh in (0, -1, 1):
                        k += 1
                        if self.tier == "quick" and k % 3 != self.seed % 3:
                            continue
                        yield (spec, build, (("normal", a), ("normal", b)), 100, 20, sh, (("indelpost", False),))

    def edge_states(self):
        """Indels and an MNV on the first / last RefSeq bases (the first mapped genome base on one of the strands),
        on worlds with the pseudogene upstream of the gene and with alignment indels."""
        k = 0
        for spec in (worlds.WorldSpec(("+", "-"), True, False, 0, "edge", "pfirst"), worlds.WorldSpec(("-", "+"), True, True, 2, "edge")):
            for build in ("hg19", "hg38"):
                for a in ("19.001", "20.001", "21.001", "22.001", "23.001"):
                    for other in ("1.001", a, "18.001"):
                        k += 1
                        if self.tier == "quick" and k % 3 != self.seed % 3:
                            continue
                        yield (spec, build, (("normal", a), ("normal", other)), (100, 150, 50)[k % 3], 20, (0, -1, 1)[k % 3])

    def shipped_states(self):
        """Shipped small genes at their real coordinates: every pair of majors (first minor of each)."""
        import itertools
        genes = ("nat2", "tpmt") if self.tier == "quick" else ("nat2", "tpmt", "cyp2c19", "cyp3a5", "nudt15", "cyp2c9")
        for name in genes:
            gene = worlds.gene_of(("shipped", name), "hg19")
            reps = [(M, sorted(a.minors)[0]) for M, a in gene.alleles.items() if a.cn_config == "1"]
            pairs = list(itertools.combinations_with_replacement(reps, 2))
            for i, pr in enumerate(pairs):
                if self.tier == "quick" and i % max(1, len(pairs) // 6) != self.seed % max(1, len(pairs) // 6):
                    continue
                if self.tier == "thorough" and len(pairs) > 400 and i % (len(pairs) // 400 + 1):
                    continue
                yield (("shipped", name), "hg19", pr, 100, 20, 0)

    def successors(self, st):
        if len(st) > 6:
            return
        spec, build, comps, rl, dp, sh = st
        if spec[0] == "shipped":
            return
        w = worlds.world(spec)
        kinds = [k for k, _ in comps]
        if kinds == ["normal", "normal"]:
            a, b = comps[0][1], comps[1][1]
            # second haplotype replaced by a structural copy
            if a in ("1.001", "2.002", "10.001", "6.001"):
                for sk, sa in structural(w):
                    yield (f"{sk}", (spec, build, (comps[0], (sk, sa)), rl, dp, sh))
                if w.spec.pseudo and b in ("1.001", "2.002", "5.001", "8.001", "10.001", "6.001"):
                    yield ("left:e2", (spec, build, (comps[0], ("left:e2", b)), rl, dp, sh))
            # duplication
            extras = ("1.001", "2.001", "4.001") if self.tier == "quick" else ("1.001", "2.001", "4.001", "7.001", "5.001")
            if a in ("1.001", "3.001", "7.001") or (self.tier == "thorough" and a in ("2.002", "8.001", "9.001")):
                for c in extras:
                    yield (f"+{c}", (spec, build, comps + (("extra", c),), rl, dp, sh))
            indel = any(x in ("4.001", "6.001", "7.001", "8.001", "9.001") for x in (a, b))
            if self.tier == "thorough" and (indel or a == "1.001"):
                for r2 in RLS[1:]:
                    if r2 != rl:
                        yield (f"rl={r2}", (spec, build, comps, r2, dp, sh))
                for s2 in (-1, 1):
                    if s2 != sh:
                        yield (f"shift={s2}", (spec, build, comps, rl, dp, s2))
        elif len(comps) == 3 and kinds == ["normal", "normal", "extra"] and self.tier == "thorough":
            if comps[2][1] in ("1.001", "2.001"):
                for c in ("1.001", "2.001", "3.001"):
                    yield (f"+{c}", (spec, build, comps + (("extra", c),), rl, dp, sh))
        elif len(comps) == 2 and kinds[1].startswith("left:i2"):
            yield ("+1.001", (spec, build, comps + (("extra", "1.001"),), rl, dp, sh))

    def canon(self, st):
        if len(st) > 6:
            return st
        spec, build, comps, rl, dp, sh = st
        if spec[0] == "shipped":
            return st
        head = tuple(sorted(c for c in comps if c[0] != "extra"))
        return (spec, build, head, tuple(sorted(c for c in comps if c[0] == "extra")), rl, dp, sh)

    def evaluate(self, st):
        from aldy.genotype import genotype
        from aldy.common import AldyException
        import aldy.cn as cnmod
        from .. import repo

        params = dict(st[6]) if len(st) > 6 else {}
        spec, build, comps, rl, dp, sh = st[:6]
        repo.reset_debug_store()
        if spec[0] == "shipped":
            return self._eval_shipped(st)
        w = worlds.world(spec)
        gene = worlds.gene_of(spec, build)
        sim = simreads.Simulator(w, build)
        d = worlds.tmpdir()
        pid = os.getpid()
        ypath = w.yaml_file(d)
        import hashlib
        ppath = os.path.join(d, f"c01prof_{build}_{rl}_{dp}_{hashlib.sha1(repr(spec).encode()).hexdigest()[:10]}.bam")
        if not os.path.exists(ppath + ".bai"):
            simreads.write_bam(ppath, sim.profile_reads(rl, dp))
        reads = []
        for i, comp in enumerate(comps):
            kind, allele = comp
            if kind in ("normal", "extra") and sh:
                var = simreads.db_variants(w, allele)
                reads += sim.gene_copy(var, rl, dp, f"c{i}g", shift=sh)
                if kind == "normal":
                    reads += sim.pseudo_copy(rl, dp, f"c{i}p")
            else:
                reads += sim.component(comp, rl, dp, f"c{i}")
        for c in range(2):
            reads += sim.neutral(rl, dp, f"n{c}")
        spath = os.path.join(d, f"c01s_{pid}.bam")
        simreads.write_bam(spath, reads)
        rec = {}
        orig = cnmod.solve_cn_model

        def wrapped(gene_, profile, cn_configs, max_cn, region_coverage, solver, debug=None, fusion_support=None):
            rec["args"] = (gene_, profile, dict(cn_configs), max_cn, dict(region_coverage), fusion_support)
            return orig(gene_, profile, cn_configs, max_cn, region_coverage, solver, debug, fusion_support)

        cnmod.solve_cn_model = wrapped
        try:
            try:
                res = genotype(ypath, spath, ppath, output_file=None, cn_region=w.neutral(build), genome=build, **params)
                sols = list(res.values())[0]
                err = None
            except AldyException as ex:
                sols, err = [], str(ex)
        finally:
            cnmod.solve_cn_model = orig
        # what was planted
        planted = [planted_variants(w, gene, c) for c in comps]
        copies = [p for p in planted if p is not None]
        want_struct = tuple(sorted(c for c, _ in copies))
        want_vars = collections.Counter(m for _, vs in copies for m in vs)
        want_majors = collections.Counter((c, frozenset(m for m in vs if gene.mutations[m][0] is not None)) for c, vs in copies)
        # premise
        v = []
        if "args" in rec:
            g_, prof, configs, max_cn, rc, fs = rec["args"]
            asg = cn_ref.enumerate_assignments(g_, prof, configs, max_cn, rc, fs)
            best = min((o for o, _, _ in asg), default=None)
            mine = [o for o, f, _ in asg if f == want_struct]
            if best is None or not mine or min(mine) > best + 1e-6:
                return Outcome([], key=("premise-false",), nontrivial=True, counters={"premise_false": 1},
                               note={"components": comps, "planted_structure": want_struct, "depths": {k: (round(a, 2), round(b, 2)) for k, (a, b) in rc.items()}})
        if err is not None or not sols:
            v.append(("e2e/no-call", f"planted {comps} (rl {rl}, depth {dp}, shift {sh}): {err}"))
            return Outcome(v, key=("error",), nontrivial=True)
        found = False
        # deletions inside a repeat whose alignment placement differs from the database placement
        moved = set()
        moved_ins = set()
        if sh:
            inv = {(v_[3] + 1, v_[4]): k for k, v_ in gene.mutations.items()}
            base = w.plus_copy(w.seq)
            for kind_, allele_ in comps:
                if allele_ is None:
                    continue
                for p1, op_ in simreads.db_variants(w, allele_):
                    if op_.startswith("del") and simreads.shift_indel(base, w.col(p1 - 1), op_, sh)[0] != w.col(p1 - 1):
                        moved.add(inv[(p1, op_)])
                    if op_.startswith("ins") and simreads.shift_indel(base, w.col(p1 - 1), op_, sh)[0] != w.col(p1 - 1):
                        moved_ins.add(inv[(p1, op_)])
        # insertions planted inside a repeat (an equivalent placement exists), whatever placement the reads use
        repeat_ins = set()
        if len(comps) >= 3 and rl >= 250 and not sh:
            inv0 = {(v_[3] + 1, v_[4]): k for k, v_ in gene.mutations.items()}
            base0 = w.plus_copy(w.seq)
            for kind_, allele_ in comps:
                if allele_ is None or kind_ in ("vars", "xvars"):
                    continue
                for p1, op_ in simreads.db_variants(w, allele_):
                    if op_.startswith("ins") and w.col(p1 - 1) is not None and any(
                            simreads.shift_indel(base0, w.col(p1 - 1), op_, dr)[0] != w.col(p1 - 1) for dr in (-1, 1)):
                        repeat_ins.add(inv0[(p1, op_)])
        only_repeat_ins = bool(repeat_ins)
        only_moved = bool(moved)
        only_moved_ins = bool(moved_ins)
        for s in sols:
            got_struct = tuple(sorted(s.major_solution.cn_solution.solution.elements()))
            got_vars = collections.Counter()
            got_majors = collections.Counter()
            for a in s.solution:
                al = gene.alleles[a.major]
                car = ({(m.pos, m.op) for m in al.func_muts} | {(m.pos, m.op) for m in al.minors[a.minor].neutral_muts}
                       | {(m.pos, m.op) for m in a.added}) - {(m.pos, m.op) for m in a.missing}
                got_vars.update(car)
                got_majors[(al.cn_config, frozenset((m.pos, m.op) for m in al.func_muts))] += 1
            if got_majors == want_majors and got_struct == want_struct:
                found = True
            if got_vars != want_vars:
                extra = sorted((got_vars - want_vars).elements())
                lost = sorted((want_vars - got_vars).elements())
                if not set(extra + lost) <= moved:
                    only_moved = False
                if not set(extra + lost) <= moved_ins:
                    only_moved_ins = False
                if not set(extra + lost) <= repeat_ins:
                    only_repeat_ins = False
                kinds = {("indel" if m[1][:3] in ("ins", "del") else "snv") for m in extra + lost}
                v.append((f"e2e/variants/{'+'.join(sorted(kinds))}", f"planted {comps} (rl {rl}, depth {dp}, shift {sh}, {build}): solution {s.get_minor_diplotype()} adds {extra} loses {lost}"))
        if not found:
            v.append(("e2e/planted-majors-not-reported", f"planted {comps} (rl {rl}, depth {dp}, shift {sh}, {build}): reported {[s.get_major_diplotype() for s in sols]}"))
        edge_ins = {m for m in moved_ins if gene.mutations[m][3] >= len(w.seq) - 3 or gene.mutations[m][3] <= 2}
        if v and only_moved_ins and moved_ins <= edge_ins and len(comps) == 2:
            # known finding D16: a shifted insertion within three bases of the end of the RefSeq-mapped part,
            # realigned against aldy's N-padded reference (with the true genome as reference the call is right)
            v = [("e2e/shifted-insertion-at-refseq-end", "; ".join(m for _, m in v)[:600])]
        elif v and only_repeat_ins:
            # known finding D15b: as D15 but with the database placement (three copies, 250-base reads, insertion in a
            # repeat); right with the true genome as reference
            v = [("e2e/repeat-insertion-long-reads", "; ".join(m for _, m in v)[:600])]
        elif v and only_moved:
            # known finding D11: keyed to exactly this situation, see known_findings.json
            v = [("e2e/shifted-repeat-deletion", "; ".join(m for _, m in v)[:600])]
        elif v and only_moved_ins and len(comps) >= 3 and rl >= 250:
            # known finding D15 (three copies, 250-base reads, insertion in a repeat placed elsewhere than the database does)
            v = [("e2e/shifted-repeat-insertion", "; ".join(m for _, m in v)[:600])]
        nontriv = len(comps) != 2 or any(a not in (None, "1.001") for _, a in comps)
        return Outcome(v, key=(sols[0].get_major_diplotype(), len(sols)), nontrivial=nontriv,
                       note={"components": comps, "rl": rl, "depth": dp, "called": [s.get_minor_diplotype() for s in sols][:3]})


def _eval_shipped(self, st):
    from aldy.genotype import genotype
    from aldy.common import AldyException

    spec, build, pair, rl, dp, sh = st
    gene = worlds.gene_of(spec, build)
    gs = simreads.GeneSimulator(gene)
    d = worlds.tmpdir()
    ppath = os.path.join(d, f"c01sh_{spec[1]}_{build}.bam")
    if not os.path.exists(ppath + ".bai"):
        gs.write(ppath, gs.sample([[], []], rl, dp))
    copies = []
    for M, mi in pair:
        a = gene.alleles[M]
        copies.append({(m.pos, m.op) for m in a.func_muts} | {(m.pos, m.op) for m in a.minors[mi].neutral_muts})
    spath = os.path.join(d, f"c01shs_{os.getpid()}.bam")
    gs.write(spath, gs.sample([sorted(c) for c in copies], rl, dp))
    try:
        res = genotype(spec[1], spath, ppath, output_file=None, cn_region=gs.neutral_region(), genome=build)
        sols = list(res.values())[0]
        err = None
    except AldyException as ex:
        sols, err = [], str(ex)
    v = []
    where = f"{spec[1]} planted {[mi for _, mi in pair]}"
    if err is not None or not sols:
        return Outcome([("e2e-shipped/no-call", f"{where}: {err}")], key=("error",), nontrivial=True)
    want_vars = collections.Counter(m for c in copies for m in c)
    want_majors = sorted(M for M, _ in pair)
    found = False
    for s in sols:
        gv = collections.Counter()
        for a in s.solution:
            al = gene.alleles[a.major]
            gv.update(({(m.pos, m.op) for m in al.func_muts} | {(m.pos, m.op) for m in al.minors[a.minor].neutral_muts}
                       | {(m.pos, m.op) for m in a.added}) - {(m.pos, m.op) for m in a.missing})
        if sorted(a.major for a in s.solution) == want_majors:
            found = True
        if gv != want_vars:
            extra, lost = sorted((gv - want_vars).elements()), sorted((want_vars - gv).elements())
            kinds = sorted({("indel" if m[1][:3] in ("ins", "del") else "snv") for m in extra + lost})
            v.append((f"e2e-shipped/variants/{'+'.join(kinds)}", f"{where}: {s.get_minor_diplotype()} adds {extra} loses {lost}"))
    if not found:
        v.append(("e2e-shipped/planted-majors-not-reported", f"{where}: reported {[s.get_major_diplotype() for s in sols]}"))
    return Outcome(v, key=(spec[1], sols[0].get_major_diplotype()), nontrivial=True, counters={"shipped_samples": 1},
                   note={"gene": spec[1], "planted": [mi for _, mi in pair], "called": [s.get_minor_diplotype() for s in sols][:2]})


C01._eval_shipped = _eval_shipped
CHECK = C01
