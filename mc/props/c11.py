"""C11 — the diplotype is a faithful arrangement of the called alleles.

Breadth-first over solutions: a state is a multiset of called allele copies (major, minor,
added variants); a transition adds one copy.  Every state is evaluated in *every*
permutation of its copies (all rotations and the reversal beyond 4 copies).
"""
import itertools
import re

from ..explore import Check, Outcome
from .. import worlds


def alphabet(wk, gene, tier):
    names = list(gene.alleles)
    if wk == ("shipped", "cyp2d6"):
        want = ["1", "2", "4", "10", "36", "13", "68", "61", "63", "4.021", "141", "5"]
        tand = {x for t in gene.common_tandems for x in t}
        names = [n for n in gene.alleles if n in want or n.split("#")[0] in tand][:14]
    if wk == ("shipped", "cyp2a6"):
        tand = {x for t in gene.common_tandems for x in t}
        names = [n for n in gene.alleles if n in ("1", "2", "4", "12", "34") or n in tand][:12]
    out = []
    cat = sorted(gene.mutations)
    for i, M in enumerate(names):
        mi = sorted(gene.alleles[M].minors)[0]
        out.append((M, mi, ()))
        if i in (1, 2) and cat:
            defs = {(m.pos, m.op) for m in gene.alleles[M].func_muts} | {(m.pos, m.op) for m in gene.alleles[M].minors[mi].neutral_muts}
            core = [m for m in cat if gene.mutations[m][0] is not None and m not in defs]
            silent = [m for m in cat if gene.mutations[m][0] is None and m not in defs]
            if core:
                out.append((M, mi, (core[0],)))
            if silent and tier == "thorough":
                out.append((M, mi, (silent[0],)))
    return out


def world_list(tier, seed):
    gen = worlds.WorldSpec(("+", "-"), True, False, 0, "rich")
    if tier == "quick":
        return [(("toy",), 4), (gen, 3), (("shipped", "gstm1"), 4), (("shipped", "cyp2d6"), 3), (("shipped", "cyp2c19"), 2)]
    return [(("toy",), 6), (gen, 4), (("shipped", "gstm1"), 6), (("shipped", "cyp2d6"), 4), (("shipped", "cyp2a6"), 4),
            (("shipped", "cyp2c19"), 3)]


def real_number(major):
    n = str(major).split("#")[0]
    c = re.split(r"(\d+)", n)
    return c[0] if c[0] != "" else c[1]


class C11(Check):
    id = "C11"
    rule = "non-trivial: at least two copies (something has to be arranged); distinct multisets are distinct states"
    assumptions = [
        "solutions are constructed directly (SolvedAllele lists); the stages that produce them are C02-C04",
        "beyond 4 copies only rotations and the reversal of the copy order are permuted",
    ]

    def bound(self):
        return max(d for _, d in world_list(self.tier, self.seed))

    def initial_states(self):
        for wk, maxd in world_list(self.tier, self.seed):
            yield (wk, ())

    def successors(self, st):
        wk, copies = st
        maxd = dict(world_list(self.tier, self.seed))[wk]
        if len(copies) >= maxd:
            return
        gene = worlds.gene_of(wk, "hg19")
        alpha = alphabet(wk, gene, self.tier)
        for a in alpha:
            if copies and a < copies[-1]:
                continue
            yield (a[0], (wk, copies + (a,)))

    def evaluate(self, st):
        import collections
        from natsort import natsorted
        from aldy.solutions import SolvedAllele, MinorSolution, MajorSolution, CNSolution
        from aldy.diplotype import estimate_diplotype
        from aldy.gene import Mutation

        wk, copies = st
        gene = worlds.gene_of(wk, "hg19")
        dele = gene.deletion_allele()
        n = len(copies)
        if n <= 4:
            perms = sorted(set(itertools.permutations(copies)))
        else:
            perms = [copies[i:] + copies[:i] for i in range(n)] + [copies[::-1]]
        v = []
        strings = set()

        def name_of(c):
            M, mi, added = c
            parts = [str(M).split("#")[0]]
            for m in sorted(added):
                if gene.mutations.get(m, (None,))[0] is not None:
                    rs = gene.mutations[m][1]
                    parts.append(rs if rs != "-" else f"{m[0] + 1}.{m[1]}")
            return "+".join(parts)

        for perm in perms:
            sa = [SolvedAllele(gene, M, mi, [Mutation(*m) for m in added], []) for M, mi, added in perm]
            cn = CNSolution(gene, 0, [gene.alleles[M].cn_config for M, _, _ in perm])
            major = MajorSolution(0, collections.Counter(SolvedAllele(gene, M) for M, _, _ in perm), cn, [])
            sol = MinorSolution(0, sa, major)
            d = estimate_diplotype(gene, sol)
            if sol.diplotype is not d and list(map(list, sol.diplotype)) != list(map(list, d)):
                v.append(("diplotype/not-stored", "returned arrangement differs from the one stored on the solution"))
            h = [list(x) for x in d]
            if len(h) != 2:
                v.append(("diplotype/not-two-haplotypes", f"{h}"))
                continue
            flat = [i for x in h for i in x]
            real = sorted(i for i in flat if i != -1)
            if real != list(range(n)):
                v.append(("diplotype/not-a-partition", f"copies {n}, arrangement {h}"))
                continue
            want_del = max(0, 2 - n) if dele else 0
            if flat.count(-1) != want_del:
                v.append(("diplotype/deletion-placeholders", f"{n} copies, deletion allele {dele}: arrangement {h}"))
            if n >= 2 and (not h[0] or not h[1]):
                v.append(("diplotype/empty-haplotype", f"{n} copies arranged as {h}"))
            if dele and n < 2 and (not h[0] or not h[1]):
                v.append(("diplotype/empty-haplotype", f"{n} copies with a deletion allele arranged as {h}"))
            names = [[(dele if i == -1 else name_of(perm[i])) for i in x] for x in h]
            shown = " / ".join(" + ".join(f"*{a}" for a in x) for x in names if x)
            got = sol.get_major_diplotype()
            if got != shown:
                v.append(("diplotype/names", f"rendered {got!r}, called alleles give {shown!r}"))
            strings.add(got)
            # tandem partners adjacent
            if n > 2:
                nums = [[(real_number(perm[i][0]) if i != -1 else None) for i in x] for x in h]
                cnt = collections.Counter(real_number(c[0]) for c in perm)
                avail = dict(cnt)
                for ta, tb in gene.common_tandems:
                    if ta == tb:
                        continue
                    k = min(avail.get(ta, 0), avail.get(tb, 0))
                    if k <= 0:
                        continue
                    adj = sum(1 for x in nums for a, b in zip(x, x[1:]) if a == ta and b == tb)
                    if adj < k:
                        v.append(("diplotype/tandem-not-adjacent", f"tandem {(ta, tb)} x{k} in {[c[0] for c in perm]} arranged {names}"))
                    avail[ta] -= k
                    avail[tb] -= k
            # natural order: haplotypes ordered, and within a haplotype once tandem seconds are removed
            if natsorted(names) != names and n > 0:
                v.append(("diplotype/haplotype-order", f"{names}"))
            tsecond = {tb for _, tb in gene.common_tandems}
            tfirst = {ta for ta, _ in gene.common_tandems}
            for x, idx in zip(names, h):
                seq = []
                prev = None
                for nm, i in zip(x, idx):
                    num = real_number(perm[i][0]) if i != -1 else None
                    if n > 2 and prev in tfirst and num in tsecond and (prev, num) in set(gene.common_tandems):
                        prev = None
                        continue       # second half of a tandem pair follows its partner
                    seq.append(nm)
                    prev = num
                if natsorted(seq) != seq:
                    v.append(("diplotype/allele-order", f"{x}"))
        if n <= 2 and len(strings) > 1:
            v.append(("diplotype/order-dependent", f"{n} copies, permutations print {sorted(strings)}"))
        return Outcome(v, key=(n, tuple(sorted(strings))[:2]), nontrivial=n >= 2,
                       counters={"permutations": len(perms)}, note={"copies": [c[0] for c in copies], "printed": sorted(strings)[:3]})


CHECK = C11
