"""C08 — a catalogued variant denotes the same haplotype in every coordinate system.

Exhaustive over catalogues: every entry of gene.mutations of every shipped database x
{hg19, hg38}, of the toy database and of the generated worlds (both strands, with and
without RefSeq<->genome alignment indels).  One state per (database, build); the
transition hg19 -> hg38 is the configuration change the property quantifies over.
"""
import os

from ..explore import Check, Outcome
from .. import worlds

W = 40
RCMAP = {"A": "T", "T": "A", "C": "G", "G": "C", "N": "N", ".": "."}
CODON = None


def rc(s):
    return "".join(RCMAP[c] for c in reversed(s))


def apply_refseq(seq, p, op):
    """Database notation: p = 0-based index of the written position."""
    if ">" in op:
        l, r = op.split(">")
        new = "".join(seq[p + i] if b == "." else b for i, b in enumerate(r))
        return seq[:p] + new + seq[p + len(l):]
    if op.startswith("ins"):
        return seq[:p + 1] + op[3:] + seq[p + 1:]          # after the written base
    dl = op[3:]
    if "ins" in dl:
        dl, ins = dl.split("ins")
        return seq[:p] + ins + seq[p + len(dl):]
    return seq[:p] + seq[p + len(dl):]


def apply_genome(gseq, off, gpos, gop):
    """Loaded notation: genome position and genome-strand alleles; insertion after the keyed base."""
    return apply_refseq(gseq, gpos - off, gop)


def apply_cigar_style(gseq, off, gpos, gop):
    """Alignment notation: an insertion is keyed at the base that follows it."""
    i = gpos - off
    if gop.startswith("ins"):
        return gseq[:i] + gop[3:] + gseq[i:]
    return apply_refseq(gseq, i, gop)


def kind_of(op):
    if ">" in op:
        return "snv" if len(op) == 3 else "mnv"
    if op.startswith("ins"):
        return "ins"
    return "delins" if "ins" in op[3:] else "del"


def translate(seq):
    from aldy.common import PROTEINS
    return "".join(PROTEINS.get(seq[i:i + 3], "?") for i in range(0, len(seq) - len(seq) % 3, 3))


def effect_ref(gene, r, alt):
    """Independent effect inference for RefSeq base r -> alt: first changed residue or None."""
    exons = gene.exons
    if not any(s <= r < e for s, e in exons):
        return None
    cds = []
    for s, e in exons:
        for i in range(s, e):
            cds.append(alt if i == r else gene.seq[i])
    a1 = translate("".join(cds))
    a0 = gene.aminoacid
    if a1 == a0:
        return None
    for i, (x, y) in enumerate(zip(a0, a1)):
        if x != y:
            return f"{x}{i + 1}{y}"
    return None


class RecVariant:
    """Records what aldy hands to indelpost.Variant and delegates to the real (compiled) class, so that the
    equivalence table is built from indelpost's real equivalents over the reference aldy itself writes."""
    log = []
    real = None

    def __init__(self, chrom, pos, ref, alt, reference):
        self.chrom, self.pos, self.ref, self.alt = chrom, pos, ref, alt
        self._v = RecVariant.real(chrom, pos, ref, alt, reference)
        RecVariant.log.append(self)

    def generate_equivalents(self):
        return self._v.generate_equivalents()


class SamStub:
    def __init__(self, n):
        self.n = n

    def get_reference_length(self, name):
        return self.n


class C08(Check):
    id = "C08"
    rule = "every catalogued variant of every database and build is one obligation; non-trivial = indel, MNV, or a gene on the - strand"
    assumptions = [
        "windows of +-40 bases around a variant that touch an unmapped base of the RefSeq<->genome alignment are counted and skipped",
        "the toy database of the test suite does not satisfy the reference-allele clause by construction (its variants do not match its sequence); that clause is not evaluated there",
        "long-read matching is checked at the level of the equivalence table aldy builds from the real indelpost equivalents over the reference aldy itself writes (a wrapper records what is handed to indelpost.Variant), not with long reads",
    ]
    min_distinct_outcomes = 2

    def bound(self):
        return 1

    def dbs(self):
        from .. import repo
        out = [("toy",)]
        names = [n for n in repo.shipped_gene_names() if not n.startswith("pharma")]
        heavy = {"cyp2d6", "dpyd", "ryr1", "g6pd"}
        for n in names:
            out.append(("shipped", n))
        specs = worlds.rich_specs()
        if self.tier == "quick":
            specs = [s for i, s in enumerate(specs) if s.seqid == self.seed % 3]
        out += specs
        # tables with indels / MNVs on the first and last RefSeq bases, both loci layouts
        edge = [worlds.WorldSpec(st, True, im, 1, "edge", lay) for st in (("+", "-"), ("-", "+")) for im in (False, True) for lay in ("std", "pfirst")]
        out += edge if self.tier == "thorough" else [edge[(self.seed) % 8], edge[(self.seed + 5) % 8]]
        self.heavy = heavy
        return out

    def initial_states(self):
        for wk in self.dbs():
            if self.tier == "quick" and wk[0] == "shipped" and wk[1] in self.heavy:
                yield (wk, "hg19" if self.seed % 2 == 0 else "hg38", self.tier)
            else:
                yield (wk, "hg19", self.tier)

    def successors(self, st):
        wk, build, tier = st
        if build == "hg19":
            if tier == "quick" and wk[0] == "shipped" and wk[1] in ("cyp2d6", "dpyd", "ryr1", "g6pd"):
                return
            yield ("build=hg38", (wk, "hg38", tier))

    def _fasta(self):
        import pysam
        p = os.path.join(worlds.tmpdir(), "tiny.fa")
        if not os.path.exists(p + ".fai"):
            with open(p, "w") as f:
                f.write(">x\nACGTACGTACGT\n")
            pysam.faidx(p)
        return p

    def evaluate(self, st):
        import collections
        from aldy.profile import Profile
        from aldy.sam import Sample
        import aldy.indelpost as IP

        wk, build, tier = st
        g = worlds.gene_of(wk, build)
        v = []
        cnt = collections.Counter()
        s, e = g._lookup_range
        # (3) maps are mutually inverse bijections
        if len(g.chr_to_ref) != len(g.ref_to_chr):
            v.append(("maps/not-bijective", f"{len(g.chr_to_ref)} genome vs {len(g.ref_to_chr)} RefSeq positions"))
        for c, r in g.chr_to_ref.items():
            if g.ref_to_chr.get(r) != c:
                v.append(("maps/not-inverse", f"chr_to_ref[{c}]={r} but ref_to_chr[{r}]={g.ref_to_chr.get(r)}"))
                break
        for c, r in g.chr_to_ref.items():
            b = g.seq[r]
            if g[c] != (b if g.strand > 0 else RCMAP[b]):
                v.append(("maps/lookup-sequence", f"genome {c} shows {g[c]}, RefSeq {r} is {b} on strand {g.strand}"))
                break
        for (gpos, gop), (fn, rs, rpos, opos, oop) in sorted(g.mutations.items()):
            k = kind_of(gop)
            cnt[k] += 1
            cnt["variants"] += 1
            # (4) written notation
            if g.get_refseq(gpos, gop) != f"{opos + 1}{oop}":
                v.append(("notation/get_refseq", f"{(gpos, gop)} -> {g.get_refseq(gpos, gop)}, written {opos + 1}{oop}"))
            if kind_of(oop) != k:
                v.append((f"kind/{k}", f"{(gpos, gop)} vs written {oop}"))
            lo, hi = max(s, gpos - W), min(e, gpos + W)
            gseq = g[lo:hi]
            if "N" in gseq or any(x not in g.chr_to_ref for x in range(lo, hi)):
                cnt["skipped_unmapped_window"] += 1
                continue
            idx = [g.chr_to_ref[x] for x in range(lo, hi)]
            rlo, rhi = (idx[0], idx[-1] + 1) if g.strand > 0 else (idx[-1], idx[0] + 1)
            if rhi - rlo != hi - lo:
                cnt["skipped_unmapped_window"] += 1
                continue
            rseq = g.seq[rlo:rhi]
            try:
                h1 = apply_genome(gseq, lo, gpos, gop)
                if g.strand < 0:
                    h1 = rc(h1)
                h2 = apply_refseq(rseq, opos - rlo, oop)
            except Exception as ex:
                v.append((f"haplotype/{k}", f"{(gpos, gop)} / {opos + 1}{oop}: {ex!r}"))
                continue
            if h1 != h2:
                v.append((f"haplotype/{k}", f"{wk} {build} strand {g.strand}: loaded {(gpos, gop)} gives {h1[W - 8:W + 12]}, written {opos + 1}{oop} gives {h2[W - 8:W + 12]}"))
            # (2) reference alleles
            if wk != ("toy",):
                ok = True
                if ">" in gop:
                    l = gop.split(">")[0]
                    ok = all(a == "." or g[gpos + i] == a for i, a in enumerate(l))
                    lo_ = oop.split(">")[0]
                    ok = ok and all(a == "." or g.seq[opos + i] == a for i, a in enumerate(lo_))
                elif gop.startswith("del"):
                    dl = gop[3:].split("ins")[0]
                    ok = g[gpos:gpos + len(dl)] == dl
                    dl2 = oop[3:].split("ins")[0]
                    ok = ok and g.seq[opos:opos + len(dl2)] == dl2
                if not ok:
                    v.append((f"ref-allele/{k}", f"{wk} {build}: {(gpos, gop)} / {opos + 1}{oop} does not match the reference"))
        # (5) anchoring handed to indel realignment / equivalence table
        indels = [m for m in g.mutations if m[1][:3] in ("ins", "del")]
        if indels:
            sm = Sample.__new__(Sample)
            sm.gene, sm.profile = g, Profile("verif", indelpost=False)
            sm._prefix = ""
            sm._indel_sites = {m: [0, 0] for m in indels}
            sm._indel_sites_eqs = {}
            RecVariant.log = []
            old = IP.Variant
            RecVariant.real = old
            IP.Variant = RecVariant
            try:
                # reference=None: aldy writes its own N-padded reference from the gene's lookup sequence
                sm._realign_indels(worlds.tmpdir(), SamStub(e + 60), None, True)
            finally:
                IP.Variant = old
                for fn in ("ref.fa", "ref.fa.fai"):
                    try:
                        os.remove(os.path.join(worlds.tmpdir(), fn))
                    except OSError:
                        pass
            if len(RecVariant.log) != len(indels):
                v.append(("anchor/realign-count", f"{len(RecVariant.log)} variants handed over for {len(indels)} catalogued indels"))
            order = sorted(indels, key=lambda x: (x[0], -len(x[1])))
            for m, rv in zip(order, RecVariant.log):
                lo, hi = max(s, m[0] - W), min(e, m[0] + W)
                gseq = g[lo:hi]
                if "N" in gseq:
                    continue
                cnt["anchor_checked"] += 1
                i = rv.pos - 1 - lo
                if gseq[i:i + len(rv.ref)] != rv.ref:
                    if wk == ("toy",):
                        continue
                    v.append((f"anchor/realign-ref/{kind_of(m[1])}", f"{m}: handed ({rv.pos}, {rv.ref}, {rv.alt}); reference there is {gseq[i:i + len(rv.ref)]}"))
                    continue
                h = gseq[:i] + rv.alt + gseq[i + len(rv.ref):]
                if h != apply_genome(gseq, lo, m[0], m[1]):
                    v.append((f"anchor/realign/{kind_of(m[1])}", f"{m}: handed ({rv.pos}, {rv.ref}, {rv.alt}) spells a different haplotype"))
            for (np_, no), m in sm._indel_sites_eqs.items():
                lo, hi = max(s, m[0] - W), min(e, m[0] + W)
                gseq = g[lo:hi]
                if "N" in gseq:
                    continue
                if wk == ("toy",) and m[1].startswith("del") and g[m[0]:m[0] + len(m[1]) - 3] != m[1][3:]:
                    continue      # the toy database's deletions do not match its reference (see assumptions)
                if apply_cigar_style(gseq, lo, np_, no) != apply_genome(gseq, lo, m[0], m[1]):
                    v.append((f"anchor/long-read-table/{kind_of(m[1])}", f"alignment key {(np_, no)} is mapped to {m} but spells a different haplotype"))
            eq_targets = set(sm._indel_sites_eqs.values())
            for m in indels:
                if "ins" in m[1][3:] and m[1].startswith("del"):
                    continue
                if m not in eq_targets:
                    v.append(("anchor/long-read-table-missing", f"{m} has no alignment-notation key"))
                    continue
                # completeness: every alignment placement (within the window) that spells the same haplotype must be
                # credited to this variant - a read shows the indel wherever the aligner happened to place it
                lo, hi = max(s, m[0] - W), min(e, m[0] + W)
                gseq = g[lo:hi]
                if "N" in gseq or wk == ("toy",):
                    continue
                H = apply_genome(gseq, lo, m[0], m[1])
                k = len(m[1]) - 3
                for q in range(lo + 2, hi - k - 2):
                    if m[1].startswith("ins"):
                        key = (q, "ins" + H[q - lo:q - lo + k])
                    else:
                        key = (q, "del" + gseq[q - lo:q - lo + k])
                    if apply_cigar_style(gseq, lo, key[0], key[1]) != H:
                        continue
                    cnt["placements"] += 1
                    got = sm._indel_sites_eqs.get(key)
                    if got is None:
                        v.append((f"anchor/long-read-placement-missing/{kind_of(m[1])}", f"{wk} {build}: {key} spells the haplotype of {m} but is not in the equivalence table"))
                    elif got != m and apply_genome(gseq, lo, got[0], got[1]) != H:
                        v.append((f"anchor/long-read-placement/{kind_of(m[1])}", f"{wk} {build}: {key} spells the haplotype of {m} but is credited to {got}"))
        # (6) inferred effects: both builds must agree with an independent translation
        sites = sorted({r for s_, e_ in g.exons for r in range(s_, e_)})
        if tier == "quick":
            cat = {g.mutations[m][3] for m in g.mutations if kind_of(m[1]) == "snv"}
            sites = [r for r in sites if r in cat or (r + 1) in cat or (r - 1) in cat]
        # the bases on both sides of every exon border (first / last coding base, first / last non-coding base)
        border = {r for s_, e_ in g.exons for r in (s_ - 2, s_ - 1, s_, s_ + 1, e_ - 2, e_ - 1, e_, e_ + 1) if 0 <= r < len(g.seq)}
        sites = sorted(set(sites) | border)
        for r in sites:
            if r not in g.ref_to_chr:
                continue
            c = g.ref_to_chr[r]
            ref = g.seq[r]
            for alt in "ACGT":
                if alt == ref:
                    continue
                op = f"{ref}>{alt}" if g.strand > 0 else f"{RCMAP[ref]}>{RCMAP[alt]}"
                if (c, op) in g.mutations:
                    continue
                cnt["effects"] += 1
                got = g.get_functional((c, op))
                want = effect_ref(g, r, alt)
                if got != want:
                    v.append(("effect/inferred", f"{wk} {build} strand {g.strand}: RefSeq {r + 1}{ref}>{alt} -> {got}, independent translation {want}"))
                    break
            if r in border:
                # an uncatalogued single-base deletion is functional exactly if the base is coding
                dop = "del" + g[c]
                if (c, dop) not in g.mutations:
                    cnt["effects"] += 1
                    got = g.get_functional((c, dop))
                    want = "indel" if any(s_ <= r < e_ for s_, e_ in g.exons) else None
                    if got != want:
                        v.append(("effect/inferred-indel", f"{wk} {build} strand {g.strand}: deletion of RefSeq base {r + 1} -> {got}, expected {want}"))
        nontriv = g.strand < 0 or cnt["ins"] + cnt["del"] + cnt["mnv"] + cnt["delins"] > 0
        return Outcome(v, key=(str(wk)[:40], build, g.strand, cnt["variants"]), nontrivial=nontriv, counters=dict(cnt),
                       note={"db": str(wk), "build": build, "strand": g.strand, "counts": dict(cnt)})


CHECK = C08
