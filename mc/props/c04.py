"""C04 — minor-allele refinement preserves the major call and is optimal.

State = (world, build, planted minors ((major, minor), ...), deviations, max_solutions).
Deviations: one cell of the table scaled by {0.5, 0.8, 1.3}; a catalogued variant nobody
planted set to {3, 5, 10} reads (a core one is also handed down as the major stage's novel
variant); one read-phase pattern over two sites (consistent or not with the planted
haplotypes).  Oracle: mc/ref/minor_ref.py.
"""
import collections
import itertools

from ..explore import Check, Outcome
from .. import worlds, tables
from ..ref import minor_ref, major_ref
from .c02 import structures, majors_of

DEPTH = 10
FACTORS = (0.2, 0.5, 0.8, 1.3)


def world_keys(tier, seed):
    small = [worlds.WorldSpec(("+", "-"), True, False, 0, "small"), worlds.WorldSpec(("-", "+"), False, False, 1, "small")]
    rich = [worlds.WorldSpec(("+", "-"), True, False, 0, "rich"), worlds.WorldSpec(("-", "+"), False, True, 1, "rich")]
    if tier == "quick":
        return [("toy",), small[seed % 2], rich[seed % 2]]
    return [("toy",)] + small + rich


def minor_plantings(gene, struct):
    cc = collections.Counter(struct)
    groups = []
    for c, k in sorted(cc.items()):
        mins = [(M, mi) for M in majors_of(gene, c) for mi in sorted(gene.alleles[M].minors)]
        groups.append(list(itertools.combinations_with_replacement(mins, k)))
    for combo in itertools.product(*groups):
        yield tuple(x for grp in combo for x in grp)


class PhaseStub:
    def __init__(self, phases):
        self.phases = phases
        self.name = "verif"


class C04(Check):
    id = "C04"
    rule = ("non-trivial: the enumerated optimum is above 0, or several read-outs are optimal, or no admissible "
            "assignment exists, or phase evidence is present")
    assumptions = [
        "table-level evidence; one major solution per call (pooling over candidates is C14's subject)",
        "score tolerance 5e-3 (aldy's tie-breaker adds minor_add*k/1e6 per added variant)",
        "the reported assignment must be the documented read-out of some admissible assignment whose closed-form score equals the reported score; which of several optimal assignments is reported is not constrained",
        "states with a count exactly on a filter threshold are counted and skipped",
    ]

    def bound(self):
        return 1 if self.tier == "quick" else 2

    def max_states(self):
        return 500000

    def initial_states(self):
        for wk in world_keys(self.tier, self.seed):
            gene = worlds.gene_of(wk, "hg19")
            is_rich = wk[0] not in ("toy",) and wk.table == "rich"
            maxc = 2 if (is_rich or self.tier == "quick") else 3
            n = 0
            for struct in structures(gene, maxc):
                for planted in minor_plantings(gene, struct):
                    n += 1
                    if self.tier == "quick" and is_rich and n % 4 != self.seed % 4:
                        continue
                    yield (wk, "hg19", planted, (), 1)
        names = ("cyp2c19", "nat2", "tpmt", "cyp3a5", "cyp2c9")
        if self.tier == "quick":
            names = (names[self.seed % len(names)],)
        for name in names:
            wk = ("shipped", name)
            gene = worlds.gene_of(wk, "hg19")
            pl = list(minor_plantings(gene, ("1", "1")))
            step = max(1, len(pl) // 120) if self.tier == "quick" else 1
            for planted in pl[self.seed % step::step]:
                yield (wk, "hg19", planted, (), 1)

    def _sites(self, gene, planted):
        majors = {M for M, _ in planted}
        cons = set()
        for M in majors:
            cons |= {(m.pos, m.op) for m in gene.alleles[M].func_muts}
            for mi in gene.alleles[M].minors.values():
                cons |= {(m.pos, m.op) for m in mi.neutral_muts}
        return cons

    def successors(self, st):
        wk, build, planted, devs, ms = st
        if wk[0] == "shipped":
            return
        if devs and not ((wk == ("toy",) or wk.table == "small") and len(planted) <= 2):
            return      # second deviation only on the toy and the small worlds, two copies
        gene = worlds.gene_of(wk, build)
        base = self._base(gene, planted)
        last = devs[-1] if devs else None
        kinds = [d[0] for d in devs]
        cells = [(pos, op) for pos in sorted(base) for op in sorted(base[pos])]
        for pos, op in cells:
            for f in FACTORS:
                d = ("scale", pos, op, f)
                if last is None or (last[0] == "scale" and d > last) or last[0] not in ("scale",):
                    if last is not None and last[0] != "scale":
                        continue
                    yield (str(d), (wk, build, planted, devs + (d,), ms))
        if "set" not in kinds and "phase" not in kinds:
            for m in sorted(gene.mutations):
                if m[1] in base.get(m[0], {}):
                    continue
                for n in ((3, 10) if self.tier == "quick" else (3, 5, 10)):
                    d = ("set", m[0], m[1], n)
                    yield (str(d), (wk, build, planted, devs + (d,), ms))
                    if ms == 1 and n == 10 and (m[0] + len(planted)) % 3 == 0:
                        # tied refinements (which copy receives the variant): ask for up to three of them
                        yield (str(d) + " ms=3", (wk, build, planted, devs + (d,), 3))
        small_world = wk[0] == "toy" or wk.table == "small"
        if small_world and "phase" not in kinds:
            cons = sorted(self._sites(gene, planted) | {(d[1], d[2]) for d in devs if d[0] == "set"})
            sites = sorted({m[0] for m in cons})
            ops = {p: ["_"] + [m[1] for m in cons if m[0] == p] for p in sites}
            for a, b in itertools.combinations(sites, 2):
                for oa in ops[a]:
                    for ob in ops[b]:
                        for n in (1, 3):
                            d = ("phase", ((a, oa), (b, ob)), n, 0)
                            yield (str(d), (wk, build, planted, devs + (d,), ms))
        if ms == 1 and not devs:
            yield ("max_solutions=3", (wk, build, planted, devs, 3))

    def canon(self, st):
        wk, build, planted, devs, ms = st
        return (wk, build, tuple(sorted(planted)), tuple(sorted(devs, key=repr)), ms)

    def _base(self, gene, planted):
        copies = [(gene.alleles[M].cn_config, tables.allele_variants(gene, M, mi)) for M, mi in planted]
        return tables.plant(gene, copies, DEPTH)

    def evaluate(self, st):
        from aldy.profile import Profile
        from aldy.solutions import CNSolution, MajorSolution, SolvedAllele
        from aldy.minor import estimate_minor
        from aldy.gene import Mutation
        from .. import repo

        wk, build, planted, devs, ms = st
        repo.reset_debug_store()
        gene = worlds.gene_of(wk, build)
        count_devs = tuple(d for d in devs if d[0] in ("scale", "set"))
        table = tables.apply_deviations(self._base(gene, planted), count_devs)
        phases = {}
        for i, d in enumerate(x for x in devs if x[0] == "phase"):
            for j in range(d[2]):
                phases[f"r{i}_{j}"] = dict(d[1])
        novel = [(d[1], d[2]) for d in devs if d[0] == "set" and tables.is_core(gene, (d[1], d[2]))]
        p = Profile("verif")
        cov = tables.to_coverage(gene, p, table, sam=PhaseStub(phases) if phases else None)
        cnlist = [gene.alleles[M].cn_config for M, _ in planted]
        cn = CNSolution(gene, 0, cnlist)
        majors = collections.Counter(M for M, _ in planted)
        major = MajorSolution(0, collections.Counter({SolvedAllele(gene, M): c for M, c in majors.items()}), cn,
                              [Mutation(*m) for m in novel])
        sols = estimate_minor(gene, cov, [major], "any", max_solutions=ms)
        reported = [(s.score, minor_ref.canon_solution(s)) for s in sols]
        considered = self._sites(gene, planted) | set(novel) | {(m.pos, m.op) for m in gene.random_mutations}
        obs = {pos: {op: [tables.HQ] * n for op, n in d.items()} for pos, d in table.items()}
        try:
            f = minor_ref.evidence_filter(gene, p, obs, cnlist, considered)
        except major_ref.Boundary:
            return Outcome([], key=("boundary",), counters={"boundary_skipped": 1})
        model = minor_ref.Model(gene, p, f, cnlist, majors, considered, phases or None)
        v, info = minor_ref.judge(model, reported, planted=planted if not devs else None)
        v2 = []
        if len(sols) > ms:
            v2.append(("minor/more-refinements-than-asked", f"{len(sols)} refinements of one major solution with max_solutions={ms}"))
        for s in sols:   # chain consistency of the returned objects
            if s.major_solution is not major:
                v2.append(("minor/major-solution-link", "returned solution does not reference the major solution it refines"))
        nontriv = bool(phases) or info.get("ref_best") is None or (info.get("ref_best") or 0) > 1e-6 or info.get("optimal_readouts", 0) > 1
        key = (len(reported), None if not reported else round(reported[0][0], 2),
               tuple((a, b, len(c), len(d)) for a, b, c, d in (reported[0][1] if reported else ())))
        cnts = {"ref_skipped": 1} if "skipped" in info else {}
        if info.get("ref_best") is None and "skipped" not in info:
            cnts["infeasible"] = 1
        return Outcome(v + v2, key=key, nontrivial=nontriv, counters=cnts,
                       note={"reported": reported[:2], "ref": info})


CHECK = C04
