"""C14 — genotyping is deterministic, isolated and leaves the database untouched.

Three state families, explored breadth-first:
  ("hist", ops)    histories of API operations on one process-wide context (a loaded gene, a
                   held sample, held stage results): stage calls, every public member of
                   Gene / MajorAllele / MinorAllele / CNConfig / CNSolution / SolvedAllele /
                   MajorSolution / MinorSolution / Coverage found by introspection, both
                   writers, query printing, single- and multi-gene genotype() runs.  A history
                   is extended by one operation; expansion stops where the reached state digest
                   was seen before (explicit-state search).
  ("seed", k, s)   the same genotyping script in a fresh process with PYTHONHASHSEED = k.
  ("cands", i, o)  the minor stage called with an ordered subset o of candidate major
                   solutions with different structures (instance i).
"""
import collections
import enum
import hashlib
import inspect
import io
import itertools
import os
import subprocess
import sys

from ..explore import Check, Outcome
from .. import worlds, simreads, tables, repo

SPEC_A = worlds.WorldSpec(("+", "-"), True, False, 0, "rich")
SPEC_B = worlds.WorldSpec(("-", "+"), True, False, 1, "rich")
SAMPLE = (("left:e2", "2.002"), ("normal", "10.001"))      # carries a fused copy, so that structure-dependent code runs
SAMPLE_B = (("normal", "3.001"), ("normal", "10.001"))


# ------------------------------------------------------------------ digests
def canon(o, depth=0):
    if isinstance(o, enum.Enum):
        return repr(o)
    if isinstance(o, float):
        return repr(round(o, 6))
    if isinstance(o, (str, int, bool, type(None))):
        return repr(o)
    if depth > 6:
        return "<deep>"
    if isinstance(o, (set, frozenset)):
        return "S{" + ",".join(sorted(canon(x, depth + 1) for x in o)) + "}"
    if isinstance(o, dict):
        return "D{" + ",".join(sorted(f"{canon(k, depth + 1)}:{canon(v, depth + 1)}" for k, v in o.items())) + "}"
    if isinstance(o, (list, tuple)):
        return "L[" + ",".join(canon(x, depth + 1) for x in o) + "]"
    if inspect.isgenerator(o):
        return canon(list(o), depth)
    if hasattr(o, "__dict__"):
        return type(o).__name__ + canon({k: v for k, v in vars(o).items() if k not in ("gene", "sam", "profile", "_yml", "data")}, depth + 1)
    return type(o).__name__


def h(s):
    return hashlib.md5(s.encode()).hexdigest()[:12]


def gene_digest(g):
    return h(canon({k: v for k, v in vars(g).items() if k not in ("_yml", "_region_at", "chr_to_ref", "ref_to_chr")})
             + str(len(g.chr_to_ref)))


def cov_digest(c):
    parts = []
    for pos in sorted(c._coverage):
        if not c._coverage[pos]:
            parts.append((pos, None, 0, 0))      # a position entry without observations is part of the evidence too (depth statistics)
        for op in sorted(c._coverage[pos]):
            lst = c._coverage[pos][op]
            parts.append((pos, op, len(lst), hash(tuple(sorted(lst)))))
    d = {k: v for k, v in vars(c).items() if k not in ("gene", "sam", "profile", "_coverage")}
    return h(repr(parts) + canon(d) + canon({k: v for k, v in vars(c.profile).items() if k != "data"}))


def sol_digest(sols):
    out = []
    for s in sols:
        out.append((round(s.score, 2), tuple(sorted(s.major_solution.cn_solution.solution.items())),
                    tuple(sorted((a.major, a.minor, tuple(sorted(a.added)), tuple(sorted(a.missing))) for a in s.solution)),
                    s.get_major_diplotype()))
    return sorted(out)


# ------------------------------------------------------------------ context
class Ctx:
    """Process-wide context of one history."""

    def __init__(self, paths):
        import copy
        from aldy.gene import Gene
        from aldy.profile import Profile
        from aldy.sam import Sample

        self.paths = paths
        if "template" not in paths:
            gene = Gene(paths["A"], genome="hg19")
            profile = Profile.load(gene, paths["prof"], None)
            sample = Sample(gene, profile, paths["sample"])
            paths["template"] = (gene, profile, sample, Gene(paths["D"], genome="hg19"))
            paths["fresh"] = (gene_digest(gene) + gene_digest(paths["template"][3]), cov_digest(sample.coverage))
        tg, tp, ts, td = paths["template"]
        # the template is never operated on; every history works on its own deep copy
        assert (gene_digest(tg) + gene_digest(td), cov_digest(ts.coverage)) == paths["fresh"], "template changed"
        self.gene, self.profile, self.sample, self.geneD = copy.deepcopy((tg, tp, ts, td))
        self.cov = self.sample.coverage
        self.cn = self.major = self.minor = None
        self.fresh_gene, self.fresh_cov = paths["fresh"]

    def held(self):
        return tuple(k for k in ("cn", "major", "minor") if getattr(self, k) is not None)

    def digest(self):
        return (gene_digest(self.gene) + gene_digest(self.geneD), cov_digest(self.cov), self.held())


_PATHS = {}


def build_files():
    """Databases, profile file and sample of the history world; built once per process."""
    import yaml
    from aldy.profile import Profile
    from aldy.gene import Gene

    if _PATHS.get("pid") == os.getpid():
        return _PATHS
    d = os.path.join(worlds.tmpdir(), "c14")
    os.makedirs(d, exist_ok=True)
    wa, wb = worlds.world(SPEC_A), worlds.world(SPEC_B)
    pa = os.path.join(d, "gena.yml")
    pb = os.path.join(d, "genb.yml")
    pc = os.path.join(d, "genc.yml")
    pd_ = os.path.join(d, "gend.yml")
    with open(pa, "w") as f:
        f.write(wa.yaml_text().replace("name: GEN\n", "name: GENA\n").replace("- GEN\n", "- GENA\n"))
    with open(pb, "w") as f:
        f.write(wb.yaml_text().replace("name: GEN\n", "name: GENB\n").replace("- GEN\n", "- GENB\n").replace("[GEN, ", "[GENB, ").replace("- - GEN\n", "- - GENB\n"))
    with open(pc, "w") as f:
        f.write(wa.yaml_text().replace("name: GEN\n", "name: GENC\n").replace("- GEN\n", "- GENC\n"))
    # gene D: the same locus and alleles as A, but the two left fusions have their break points swapped -
    # identical allele names and coordinates, different structures (a cache keyed too coarsely would confuse them)
    with open(pd_, "w") as f:
        f.write(wa.yaml_text().replace("name: GEN\n", "name: GEND\n").replace("- GEN\n", "- GEND\n")
                .replace("- e2-\n", "- @@\n").replace("- i2-\n", "- e2-\n").replace("- @@\n", "- i2-\n"))
    sim = simreads.Simulator(wa, "hg19")
    prof_bam = os.path.join(d, "prof.bam")
    simreads.write_bam(prof_bam, sim.profile_reads(100, 20))
    regions = {}
    for p in (pa, pb, pd_):
        g = Gene(p, genome="hg19")
        for gi, gr in enumerate(g.regions):
            for r, rng in gr.items():
                regions[g.name, r, gi] = rng
    data = Profile.get_sam_profile_data(prof_bam, regions=regions, cn_region=wa.neutral("hg19"), genome="hg19")
    prof = os.path.join(d, "prof.yml")
    with open(prof, "w") as f:
        f.write(yaml.dump(data, default_flow_style=None))
    sample = os.path.join(d, "sample.bam")
    simreads.write_bam(sample, sim.sample_reads(list(SAMPLE), 100, 20))
    _PATHS.update({"pid": os.getpid(), "A": pa, "B": pb, "C": pc, "D": pd_, "prof": prof, "sample": sample, "dir": d})
    return _PATHS


GCALLS = (("illumina", None, {}), ("illumina", "R1", {}), ("illumina", "R2", {}), ("wgs", None, {}), ("illumina", None, {"gap": 0.1}),
          ("wgs", "R2", {"gap": 0.1}))


def nat2_files(P):
    """A simulated NAT2 sample at its real hg19 coordinates with reads in the default copy-number-neutral
    region (chr22) and in a custom one, for genotype() calls through the shipped 'illumina' profile."""
    import pysam
    from aldy.common import GRange
    if "nat2" in P:
        return P["nat2"]
    gene = worlds.gene_of(("shipped", "nat2"), "hg19")
    gs = simreads.GeneSimulator(gene)
    a = gene.alleles["5"] if "5" in gene.alleles else list(gene.alleles.values())[1]
    var = sorted({(m.pos, m.op) for m in a.func_muts} | {(m.pos, m.op) for m in a.minors[sorted(a.minors)[0]].neutral_muts})
    reads8 = gs.sample([[], var], 100, 20)
    ns, ne = 42547463, 42548249
    fill = worlds.lcg_seq(23, 2000)
    ev = [("M", p_, fill[(p_ - ns) % len(fill)]) for p_ in range(ns - 300, ne + 300)]
    reads22 = simreads.tile(ev, 100, 40, "d22")
    path = os.path.join(P["dir"], "nat2.bam")
    hdr = {"HD": {"VN": "1.0", "SO": "coordinate"}, "SQ": [{"SN": "8", "LN": gs.chrlen}, {"SN": "22", "LN": 51304566}]}
    with pysam.AlignmentFile(path, "wb", header=hdr) as f:
        for rid, reads in ((0, reads8), (1, reads22)):
            for n, pos, sq, cg in sorted(reads, key=lambda r: (r[1], r[0])):
                x = pysam.AlignedSegment()
                x.query_name, x.query_sequence, x.flag, x.reference_id, x.reference_start = n, sq, 0, rid, pos
                x.mapping_quality, x.cigarstring = 60, cg
                x.query_qualities = pysam.qualitystring_to_array("I" * len(sq))
                f.write(x)
    pysam.index(path)
    r1 = gs.neutral_region()
    P["nat2"] = (path, {"R1": r1, "R2": GRange(r1.chr, r1.start + 50, r1.start + 350)})
    return P["nat2"]


def chain_states():
    """States of OTHER checks (stage-level evaluations on different gene databases that share allele names and
    coordinates but differ in strand / structure); used to test that an evaluation does not depend on what the
    process handled before."""
    A = worlds.WorldSpec(("+", "-"), True, False, 0, "richd")
    B = worlds.WorldSpec(("-", "+"), True, False, 0, "richd")      # same offsets and names, opposite strand
    fus = (("1", "1.001"), ("12#1", "12#2.002"))
    L = [
        ("mc.props.c04", (A, "hg19", fus, (("set", None, None, 10),), 1)),
        ("mc.props.c04", (B, "hg19", fus, (("set", None, None, 10),), 1)),
        ("mc.props.c04", (("toy",), "hg19", (("1", "1.001"), ("4#3", "4#3.001")), (), 1)),
        ("mc.props.c02", (A, "hg19", ("1", "13"), ("1", "13"), (), 0.1)),
        ("mc.props.c02", (B, "hg19", ("1", "13"), ("1", "13"), (), 0.1)),
        ("mc.props.c13", ("table", A, fus, (), 0.0)),
        ("mc.props.c13", ("table", ("toy",), (("1", "1.001"), ("2", "2.001")), (), 0.0)),
        # the same reads through the file path on either build of one database (C06), two threshold settings on one
        # table (C15), an integer and a binary model with the same variable names (C05), both builds' catalogues (C08)
        ("mc.props.c06", ("file", True, "hg19", False, (2, 15))),
        ("mc.props.c06", ("file", "pseudo", "hg38", False, (2, 1))),
        ("mc.props.c15", (A, (("2", "2.001"), ("3", "3.001")), (), (10, 10, 2, 0.5), ((None, None, 5, (60, 15)),))),
        ("mc.props.c15", (A, (("2", "2.001"), ("3", "3.001")), (), (20, 10, 2, 0.5), ((None, None, 5, (60, 15)),))),
        ("mc.props.c05", ("intmix", 2, 0, (1, 1), 2)),
        ("mc.props.c05", ("model", 2, (((1, 1), 1),), None, False, "tenth", 0.5, None, None)),
    ]
    out = []
    for mod, st in L:
        if mod.endswith("c04") and st[3]:
            # an unplanted silent variant in a region the fused allele lacks on one strand only
            g = worlds.gene_of(st[0], "hg19")
            m = sorted(x for x in g.mutations if g.mutations[x][0] is None and g.region_at(x[0])[1] == "i1")[0]
            st = (st[0], st[1], st[2], (("set", m[0], m[1], 10),), st[4])
        if mod.endswith("c15"):
            g = worlds.gene_of(st[0], "hg19")
            m = sorted(x for x in g.mutations if g.mutations[x][0] is not None and x[1][1:2] == ">")[-1]
            st = (st[0], st[1], st[2], st[3], ((m[0], m[1], 50, (60, 15)),))
        out.append((mod, st))
    return out


CLASSES = ("Gene", "MajorAllele", "MinorAllele", "CNConfig", "CNSolution", "SolvedAllele", "MajorSolution", "MinorSolution", "Coverage")
SKIP = {("Coverage", "dump"), ("MinorSolution", "set_diplotype")}


def class_objects(ctx):
    g = ctx.gene
    out = {"Gene": g, "Gene@D": ctx.geneD, "MajorAllele": g.alleles["2"], "MinorAllele": g.alleles["2"].minors["2.002"],
           "CNConfig": g.cn_configs["1"], "Coverage": ctx.cov}
    if ctx.cn:
        out["CNSolution"] = ctx.cn[0]
    if ctx.major:
        out["MajorSolution"] = ctx.major[0]
        out["SolvedAllele"] = sorted(ctx.major[0].solution, key=lambda a: a.major)[-1]
    if ctx.minor:
        out["MinorSolution"] = ctx.minor[0]
        out["SolvedAllele"] = sorted(ctx.minor[0].solution, key=lambda a: a.minor)[-1]
    return out


def arg_menu(ctx):
    from aldy.gene import Mutation
    from aldy.coverage import Coverage

    g = ctx.gene
    m = sorted(g.mutations)[0]
    mm = Mutation(*m)
    e2pos = g.regions[0]["e2"].start + 10
    menu = [(), (mm,), (m[0],), (m[0], m[1]), ("2",), ("2.002",), ("2", m[0]), (0, "e1"), (0,), (-1,), (ctx.cov,),
            (Coverage.quality_filter,), ((m[0], m[1]),), ("1.002",)]
    if ctx.cn:
        menu += [(ctx.cn[0],), (mm, ctx.cn[0]), (m[0], ctx.cn[0])]
    else:
        menu += [(None,), (None, None), (None, None)]
    menu += [("12#1", e2pos), ("13", e2pos), (e2pos,)]       # a fused allele at a position only one of the two genes retains
    menu += [(Mutation(17, "A>C"),), (17,)]                  # a position without any observation
    return menu


def arg_indices(cls_name, name, member):
    """Indices into arg_menu() whose arity fits the member's signature (at most 5)."""
    if isinstance(member, property):
        return [0]
    try:
        params = [p for p in inspect.signature(member).parameters.values() if p.name != "self"]
    except (TypeError, ValueError):
        return [0]
    req = len([p for p in params if p.default is inspect._empty and p.kind in (p.POSITIONAL_ONLY, p.POSITIONAL_OR_KEYWORD)])
    var = any(p.kind == p.VAR_POSITIONAL for p in params)
    mx = len([p for p in params if p.kind in (p.POSITIONAL_ONLY, p.POSITIONAL_OR_KEYWORD)])
    lens = [0, 1, 1, 2, 1, 1, 2, 2, 1, 1, 1, 1, 1, 1, 1, 2, 2, 2, 2, 1, 1, 1]
    idx = [i for i, n in enumerate(lens) if (req <= n <= mx) or (var and n >= max(req, 1))]
    keep = idx[:6] + [i for i in idx[6:] if i >= 17]
    return keep if keep else [0]


def accessor_alphabet():
    """(class, member, argument index) triples discovered by introspection."""
    import aldy.gene as G
    import aldy.solutions as S
    import aldy.coverage as C

    out = []
    for cn_ in CLASSES:
        cls = getattr(G, cn_, None) or getattr(S, cn_, None) or getattr(C, cn_, None)
        for name, member in inspect.getmembers(cls):
            if name.startswith("_") and name not in ("__str__", "__hash__", "__repr__", "__getitem__", "__contains__"):
                continue
            if (cn_, name) in SKIP:
                continue
            if name in ("__hash__", "__repr__", "__str__") and name not in vars(cls):
                continue          # default object hash / repr: identity, not a property of the value
            if isinstance(member, property) or callable(member):
                for ai in arg_indices(cn_, name, member):
                    out.append((cn_, name, ai))
                    if cn_ == "Gene" and name in ("has_coverage", "region_at", "get_functional", "is_functional", "get_rsid", "get_refseq",
                                                  "get_allele", "deletion_allele", "get_wide_region", "__contains__", "__getitem__"):
                        out.append(("Gene@D", name, ai))       # the same member on a second gene held in the process
    return out


def run_op(ctx, op):
    """Executes one operation; returns a result digest (or ('disabled',))."""
    from aldy import cn as cnmod, major as majmod, minor as minmod
    from aldy.diplotype import write_decomposition, write_vcf
    from aldy.query import query
    from aldy.genotype import genotype
    from aldy.common import AldyException
    import contextlib

    kind = op[0]
    P = ctx.paths
    if kind == "cn":
        ctx.cn = cnmod.estimate_cn(ctx.gene, ctx.profile, ctx.cov, "any")
        return h(canon(sorted((round(s.score, 2), tuple(sorted(s.solution.items()))) for s in ctx.cn)))
    if kind == "major":
        if not ctx.cn:
            return ("disabled",)
        ctx.major = majmod.estimate_major(ctx.gene, ctx.cov, ctx.cn[0], "any")
        return h(canon(sorted((round(s.score, 2), tuple(sorted((a.major, c) for a, c in s.solution.items())), tuple(sorted(s.added))) for s in ctx.major)))
    if kind == "minor":
        if not ctx.major:
            return ("disabled",)
        # refine copies of the candidates: the stage adjusts the score of what it returns
        ctx.minor = minmod.estimate_minor(ctx.gene, ctx.cov, ctx.major, "any")
        return h(canon(sol_digest(ctx.minor)))
    if kind == "writers":
        if not ctx.minor:
            return ("disabled",)
        f = io.StringIO()
        write_decomposition("S", ctx.gene, ctx.cov, 1, ctx.minor[0], f)
        write_vcf("S", ctx.gene, ctx.cov, ctx.minor, f)
        return h(f.getvalue())
    if kind == "query":
        f = io.StringIO()
        import aldy.query as Q
        rec = []
        old = Q.log.info
        try:
            Q.log.info = lambda *a, **k: rec.append(str(a))
            try:
                query(ctx.gene, op[1])
            except (SystemExit, AldyException, KeyError) as ex:
                rec.append(type(ex).__name__)
        finally:
            Q.log.info = old
        return h("".join(rec))
    if kind == "acc":
        _, cls, name, ai = op
        objs = class_objects(ctx)
        if cls not in objs:
            return ("disabled",)
        o = objs[cls]
        if ai < len(arg_menu(ctx)) and any(a is None for a in arg_menu(ctx)[ai]):
            return ("disabled",)
        member = inspect.getattr_static(type(o), name, None)
        try:
            if isinstance(member, property):
                if ai:
                    return ("disabled",)
                r = getattr(o, name)
            else:
                menu = arg_menu(ctx)
                if ai >= len(menu):
                    return ("disabled",)
                r = getattr(o, name)(*menu[ai])
                if inspect.isgenerator(r):
                    r = list(r)
            if isinstance(r, str):
                import re
                r = re.sub(r" at 0x[0-9a-f]+", "", r)
            return h(canon(r))
        except Exception as ex:
            return ("exc", type(ex).__name__)
    if kind == "gload":
        # profile + sample loading through the public API: normalised region depths
        from aldy.profile import Profile
        from aldy.sam import Sample
        prof, rk, params = GCALLS[op[1]]
        path, regs = nat2_files(P)
        g_ = worlds.gene_of(("shipped", "nat2"), "hg19")
        try:
            pr = Profile.load(g_, "illumina" if prof == "wgs" else prof, regs[rk] if rk else None, **params)
            sm = Sample(g_, pr, path)
            return ("gload", h(canon({k: round(v_, 6) for k, v_ in sm.coverage._region_coverage.items()})), round(pr.neutral_value, 3))
        except AldyException as ex:
            return ("gload", "error", str(ex)[:40])
    if kind == "gcall":
        prof, rk, params = GCALLS[op[1]]
        path, regs = nat2_files(P)
        out = os.path.join(P["dir"], f"gcall_{os.getpid()}.aldy")
        with open(out, "w") as fh:
            try:
                res = genotype("nat2", path, prof, output_file=fh, cn_region=regs[rk] if rk else None, genome="hg19", **params)
                dig = sol_digest(list(res.values())[0])
            except AldyException as ex:
                dig = ("error", str(ex)[:60])
        return ("gcall", h(canon(dig)), h(open(out).read()))
    if kind == "genotype":
        which = op[1]
        dbs = {"A": P["A"], "B": P["B"], "D": P["D"], "AB": P["A"] + "," + P["B"], "ACB": P["A"] + "," + P["C"] + "," + P["B"],
               "BA": P["B"] + "," + P["A"], "AD": P["A"] + "," + P["D"], "DA": P["D"] + "," + P["A"]}[which]
        out = os.path.join(P["dir"], f"out_{os.getpid()}.aldy")
        with open(out, "w") as fh:
            try:
                res = genotype(dbs, P["sample"], P["prof"], output_file=fh, genome="hg19")
            except AldyException as ex:
                res = {"error": str(ex)[:50]}
        text = open(out).read()
        per = {}
        for k, v in res.items():
            per[os.path.basename(k)] = sol_digest(v) if k != "error" else v
        # output rows per gene
        rows = collections.defaultdict(list)
        for line in text.splitlines():
            if line and not line.startswith("#"):
                rows[line.split("\t")[1]].append(line)
        return ("genotype", tuple(sorted((k, h(canon(v))) for k, v in per.items())), tuple(sorted((k, h("\n".join(v))) for k, v in rows.items())))
    raise ValueError(op)


# ------------------------------------------------------------------ candidate instances for the minor stage
CAND_WORLDS = (worlds.WorldSpec(("+", "-"), True, False, 0, "rich"), worlds.WorldSpec(("-", "+"), False, True, 2, "richd"))


def hash_small(x):
    return int(hashlib.md5(repr(x).encode()).hexdigest()[:6], 16)


def cand_instances():
    """(table, [(structure, {major: count}, novel, major score), ...]) over the toy gene."""
    T = lambda **kw: {int(k[1:]): v for k, v in kw.items()}
    inst = []
    inst.append((T(p100000104={"_": 30}, p100000110={"_": 30}, p100000114={"_": 25, "T>A": 5}, p100000118={"_": 30}, p100000147={"_": 30}, p100000150={"_": 30}),
                 [(("1", "1"), {"1": 2}, (), 0.0), (("1", "1", "1"), {"1": 3}, (), 0.0), (("1",), {"1": 1}, (), 0.4)]))
    inst.append((T(p100000104={"_": 20}, p100000110={"_": 20}, p100000114={"_": 20}, p100000118={"_": 20}, p100000147={"_": 20, "insA": 10}, p100000150={"_": 14, "C>T": 6}),
                 [(("1", "1"), {"1": 2}, ((100000150, "C>T"),), 0.0), (("1", "1"), {"1": 1, "3": 1}, (), 0.5), (("1", "1", "1"), {"1": 2, "3": 1}, (), 0.7)]))
    inst.append((T(p100000104={"_": 20, "T>A": 10}, p100000110={"_": 30}, p100000114={"_": 22, "T>A": 8}, p100000118={"_": 30}, p100000147={"_": 30, "insA": 8}, p100000150={"_": 20, "C>T": 10}),
                 [(("1", "1", "1"), {"1": 1, "2": 1, "3": 1}, (), 0.0), (("1", "1"), {"2": 1, "3": 1}, (), 0.3), (("1", "1", "1", "1"), {"1": 2, "2": 1, "3": 1}, (), 0.6),
                  (("1", "4"), {"2": 1, "4#3": 1}, (), 0.9)]))
    inst.append((T(p100000104={"_": 40}, p100000110={"_": 20, "delAC": 20}, p100000114={"_": 34, "T>A": 6}, p100000118={"_": 40, "insTT": 18}, p100000147={"_": 40}, p100000150={"_": 40}),
                 [(("1", "1"), {"2": 1, "1": 1}, (), 0.0), (("1", "1", "1"), {"2": 2, "1": 1}, (), 0.2), (("1", "1", "1", "1"), {"2": 2, "1": 2}, (), 0.2)]))
    return inst


class C14(Check):
    id = "C14"
    rule = ("histories: every history of length >= 1 is non-trivial; the state digest (catalogue, evidence, held results) "
            "decides which histories are expanded; seeds and candidate orders: every state is non-trivial")
    assumptions = [
        "scores are compared at the documented precision 1e-2, everything else (structures, alleles, output text) exactly",
        "the debug store (aldy.common.json) is deliberately NOT cleared between operations: it must not influence results",
        "solution objects may be changed by their own setters (set_diplotype); the property protects the gene database and the sample evidence",
        "candidate families are built on the toy gene with hand-made noisy tables (the inputs that exposed D3/D7/D8)",
    ]

    def bound(self):
        return 4 if self.tier == "quick" else 6

    def max_states(self):
        return 60000

    def alphabet(self):
        ops = [("cn",), ("major",), ("minor",), ("writers",), ("query", ""), ("query", "2"), ("query", "2.002"), ("query", "nope")]
        ops += [("genotype", w) for w in ("A", "B", "D", "AB", "ACB", "BA", "AD", "DA")]
        for cls, name, ai in accessor_alphabet():
            ops.append(("acc", cls, name, ai))
        return ops

    def initial_states(self):
        yield ("hist", ())
        # prefixes that hold stage results, so that the members of every solution class are reached
        # within the quick depth bound too
        yield ("hist", (("cn",),))
        yield ("hist", (("cn",), ("major",)))
        yield ("hist", (("cn",), ("major",), ("minor",)))
        # sequences of genotype() calls through the shipped profile with different neutral regions / parameters
        for i in range(len(GCALLS)):
            yield ("hist", (("gcall", i),))
            yield ("hist", (("gload", i),))
        for k in range(8):
            yield ("seedtable", k)
            for s in (0, 1):
                if self.tier == "quick" and s == 1 and k not in (0, 5):
                    continue
                yield ("seed", k, s)
        # evaluations of other checks chained in one fresh process, in every order of two, and alone
        n = len(chain_states())
        for j in range(n):
            yield ("chain", None, j)
            for i in range(n):
                # quick: neighbours in the list (the designed conflicts) in both orders, plus a parity slice of the rest
                if i != j and (self.tier == "thorough" or abs(i - j) == 1 or (i + j + self.seed) % 2 == 0):
                    yield ("chain", i, j)
        # systematic candidate sets: toy tables (planted pair + one deviation); the candidates are what the major
        # stage itself proposes for a menu of structures
        from .c02 import structures
        from .c04 import minor_plantings
        gene = worlds.gene_of(("toy",), "hg19")
        for struct in structures(gene, 2):
            if len(struct) != 2:
                continue
            for planted in minor_plantings(gene, struct):
                yield ("cands2", planted, ())
        # the same on generated worlds (both strands, rich table with fusions, indels and a deletion): the candidates are
        # what the major stage proposes for the planted structure, one copy more, one copy fewer and two other structures
        for wi, wk in enumerate(CAND_WORLDS):
            gene = worlds.gene_of(wk, "hg19")
            n = 0
            for struct in structures(gene, 2):
                if len(struct) != 2:
                    continue
                for planted in minor_plantings(gene, struct):
                    n += 1
                    if self.tier == "quick" and n % 8 != (self.seed + 5 * wi) % 8:
                        continue
                    if self.tier == "thorough" and n % 2 != (self.seed + wi) % 2:
                        continue
                    yield ("cands3", wi, planted, ())
        for i, (table, cands) in enumerate(cand_instances()):
            n = len(cands)
            for r in range(1, min(n, 3 if self.tier == "quick" else 4) + 1):
                for order in itertools.permutations(range(n), r):
                    yield ("cands", i, order)

    def successors(self, st):
        if st[0] == "cands2":
            _, planted, devs = st
            if devs:
                return
            from .c04 import C04, FACTORS
            gene = worlds.gene_of(("toy",), "hg19")
            base = C04._base(None, gene, planted)
            k = 0
            for pos in sorted(base):
                for op in sorted(base[pos]):
                    for f in (0.5, 1.3):
                        k += 1
                        if self.tier == "quick" and k % 6 != self.seed % 6:
                            continue
                        yield (f"{pos}{op}x{f}", ("cands2", planted, (("scale", pos, op, f),)))
            for mi_, m in enumerate(sorted(gene.mutations)):
                if m[1] not in base.get(m[0], {}):
                    if self.tier == "quick" and mi_ % 2 != self.seed % 2:
                        continue
                    yield (f"set{m}", ("cands2", planted, (("set", m[0], m[1], 6),)))
            return
        if st[0] == "cands3":
            _, wi, planted, devs = st
            if devs or self.tier == "quick":
                return
            from .c04 import C04
            gene = worlds.gene_of(CAND_WORLDS[wi], "hg19")
            base = C04._base(None, gene, planted)
            cells = [(pos, op) for pos in sorted(base) for op in sorted(base[pos])]
            k = hash_small(planted)
            for ci, (pos, op) in enumerate(cells):
                if (ci + k) % 8 == self.seed % 8:
                    yield (f"{pos}{op}x0.5", ("cands3", wi, planted, (("scale", pos, op, 0.5),)))
            muts = [m for m in sorted(gene.mutations) if m[1] not in base.get(m[0], {})]
            for mi_, m in enumerate(muts):
                if (mi_ + k) % 8 == self.seed % 8:
                    yield (f"set{m}", ("cands3", wi, planted, (("set", m[0], m[1], 6),)))
            return
        if st[0] != "hist":
            return
        ops = st[1]
        if ops and ops[0][0] in ("gcall", "gload"):
            if len(ops) < 2:
                for j in range(len(GCALLS)):
                    yield (f"gload{j}", ("hist", ops + (("gload", j),)))
                    if ops[0][0] == "gcall" and (self.tier == "thorough" or j < 2):
                        yield (f"gcall{j}", ("hist", ops + (("gcall", j),)))
            return
        n_extra = len([o for o in ops if o[0] not in ("cn", "major", "minor")])
        if n_extra >= (1 if self.tier == "quick" else 2):
            return       # quick: one operation beyond the stage prefix (thorough: two) - then the digests decide
        for op in self.alphabet():
            if op[0] == "genotype" and len(ops) >= 2:
                continue
            if n_extra >= 1 and op[0] == "acc" and not (op[1] in ("Gene", "Gene@D", "Coverage") and op[2] in
                                                        ("has_coverage", "region_at", "get_functional", "total", "coverage", "filtered")):
                continue      # second operation beyond the prefix: the reduced alphabet (stage calls, writers, queries,
                              # genotype runs and the accessors that consult structure-dependent tables)
            yield (str(op), ("hist", ops + (op,)))

    def describe(self, st):
        return repr(st)

    # ------------------------------------------------------------------
    def evaluate(self, st):
        if st[0] == "hist":
            return self._eval_hist(st)
        if st[0] == "seed":
            return self._eval_seed(st)
        if st[0] == "seedtable":
            return self._eval_seedtable(st)
        if st[0] in ("cands2", "cands3"):
            return self._eval_cands2(st)
        if st[0] == "chain":
            return self._eval_chain(st)
        return self._eval_cands(st)

    def _eval_chain(self, st):
        import base64, pickle
        _, i, j = st
        L = chain_states()
        seq = ([L[i]] if i is not None else []) + [L[j]]
        blob = base64.b64encode(pickle.dumps(seq)).decode()
        script = f"""
import sys, pickle, base64, importlib
sys.path.insert(0, {os.path.dirname(os.path.dirname(os.path.dirname(os.path.abspath(__file__))))!r})
from mc import repo; repo.setup()
seq = pickle.loads(base64.b64decode({blob!r}))
last = None
for mod, st in seq:
    chk = importlib.import_module(mod).CHECK("quick", 0)
    o = chk.evaluate(st)
    last = (repr(o.key), sorted(s for s, _ in o.violations), repr(o.note)[:400])
print("RESULT", repr(last))
"""
        env = dict(os.environ, PYTHONHASHSEED="0", VERIF_REPO=repo.REPO)
        r = subprocess.run([sys.executable, "-W", "ignore", "-c", script], capture_output=True, text=True, env=env)
        line = [l for l in r.stdout.splitlines() if l.startswith("RESULT")]
        v = []
        if r.returncode != 0 or not line:
            v.append(("chain/run-failed", r.stderr[-400:]))
        return Outcome(v, key=("chain", j, line[0] if line else None), nontrivial=True,
                       note={"after": None if i is None else L[i][0] + str(L[i][1])[:80], "state": L[j][0] + str(L[j][1])[:120],
                             "result": line[0][:200] if line else None, "i": i, "j": j})

    def _eval_cands2(self, st):
        from aldy.profile import Profile
        from aldy.solutions import CNSolution
        from aldy.major import estimate_major
        from .c04 import C04

        if st[0] == "cands3":
            _, wi, planted, devs = st
            gene = worlds.gene_of(CAND_WORLDS[wi], "hg19")
            label = f"world {CAND_WORLDS[wi]} planted {planted} devs {devs}"
        else:
            _, planted, devs = st
            gene = worlds.gene_of(("toy",), "hg19")
            label = f"toy planted {planted} devs {devs}"
        p = Profile("verif", gap=0.3)
        table = tables.apply_deviations(C04._base(None, gene, planted), devs)
        cov0 = tables.to_coverage(gene, p, table)
        base_struct = tuple(gene.alleles[M].cn_config for M, _ in planted)
        if st[0] == "cands3":
            fus = sorted(c for c in gene.cn_configs if c != "1" and gene.cn_configs[c].alleles and c != gene.deletion_allele())
            menu = [base_struct, base_struct + ("1",), base_struct[:1], ("1", "1")] + [("1", f) for f in fus[:2]]
        else:
            menu = [base_struct, base_struct + ("1",), base_struct[:1], ("1", "1"), ("1", "4")]
        cands = []
        seen = set()
        for stc in menu:
            if tuple(sorted(stc)) in seen:
                continue
            seen.add(tuple(sorted(stc)))
            try:
                ms = estimate_major(gene, cov0, CNSolution(gene, 0, list(stc)), "any")
            except Exception:
                ms = []
            ms = sorted(ms, key=lambda m: (int(1000 * m.score), m._solution_nice()))
            if ms:
                m = ms[0]
                cands.append((tuple(stc), {a.major: c for a, c in m.solution.items()}, tuple((x.pos, x.op) for x in m.added), round(m.score, 3)))
        if st[0] == "cands3" and len(cands) > 4 and hash_small(planted) % 2:
            cands = cands[:2] + cands[3:5]      # alternate between the one-copy candidate and the second fusion
        cands = cands[:4]
        v = []
        summary = []
        for r in (2, 3):
            for order in itertools.permutations(range(len(cands)), r):
                if st[0] == "cands3" and r == 3 and tuple(order) != tuple(sorted(order)) and tuple(order) != tuple(sorted(order, reverse=True)):
                    continue      # generated worlds: every ordered pair, every triple in ascending and descending order
                vv, same = self._judge_candidates(gene, Profile("verif"), table, cands, order, label)
                v += vv
                summary.append(same)
        return Outcome(v[:6], key=(st[0], len(cands), sum(all(x) for x in summary)), nontrivial=len(cands) >= 2,
                       counters={"candidate_orders": len(summary)}, note={"planted": planted, "devs": devs, "candidates": [c[:2] for c in cands]})

    def _eval_hist(self, st):
        ops = st[1]
        ctx = Ctx(build_files())
        v = []
        results = []
        for op in ops:
            held_before = ctx.held()
            r = run_op(ctx, op)
            results.append((op, r, held_before))
            gd, cd, held = ctx.digest()
            where = f"{op[1]}.{op[2]}" if op[0] == "acc" else op[0]
            if gd != ctx.fresh_gene:
                v.append((f"history/catalogue-modified@{where}", f"after {ops}: the loaded gene database differs from a fresh load (operation {op})"))
                break
            if cd != ctx.fresh_cov:
                v.append((f"history/evidence-modified@{where}", f"after {ops}: the sample evidence differs from a fresh load (operation {op})"))
                break
        last = results[-1] if results else None
        enabled = last is None or last[1] != ("disabled",)
        digest = (ctx.digest(), tuple(sorted(set(op for op, r, hb in results if op[0] == "genotype"))),
                  tuple(op for op, r, hb in results if op[0] in ("gcall", "gload")))
        if not enabled:
            digest = None     # a disabled operation reaches no new state; never expanded: give it a unique dead digest
            return Outcome(v, key=("disabled",), nontrivial=False, digest=("dead",), note={"history": [str(o) for o in ops]})
        return Outcome(v, key=(last[0][0] if last else "init", str(last[1])[:40] if last else ""), nontrivial=bool(ops), digest=digest,
                       note={"history": [str(o) for o in ops], "last_result": str(last[1])[:80] if last else None,
                             "results": results})

    def finalize(self, results):
        """History independence: an operation yields the same result from every state in which it
        is enabled; a multi-gene run equals the union of the single runs."""
        out = []
        seen = {}
        single = {}
        for st, o in results:
            if st[0] != "hist" or not o.note:
                continue
            for op, r, held_before in o.note.get("results", []):
                if r == ("disabled",):
                    continue
                # accessors of solution objects depend on which stage results are held
                key = (op, held_before if op[0] in ("acc",) else ())
                if key in seen and seen[key][0] != r:
                    out.append((f"history/result-depends-on-history@{op[0]}", f"{op}: {seen[key][0]} after {seen[key][1]} but {r} after {st[1]}", st))
                seen.setdefault(key, (r, st[1]))
                if op[0] == "genotype":
                    single[op[1]] = r
        # multi-gene = union of single runs; a failing gene changes nothing
        if "A" in single and "B" in single:
            want_res = dict(single["A"][1] + single["B"][1])
            want_rows = dict(single["A"][2] + single["B"][2])
            if "D" in single:
                want_ad_res = dict(single["A"][1] + single["D"][1])
                want_ad_rows = dict(single["A"][2] + single["D"][2])
            for multi in ("AB", "ACB", "BA", "AD", "DA"):
                if multi in single:
                    got_res, got_rows = dict(single[multi][1]), dict(single[multi][2])
                    if multi in ("AD", "DA"):
                        if "D" in single and (got_res != want_ad_res or got_rows != want_ad_rows):
                            out.append(("history/multi-gene-differs-from-single-runs", f"{multi}: {single[multi]} vs A {single['A']} + D {single['D']}", ("hist", (("genotype", multi),))))
                        continue
                    if got_res != want_res or got_rows != want_rows:
                        out.append(("history/multi-gene-differs-from-single-runs", f"{multi}: {single[multi]} vs A {single['A']} + B {single['B']}", ("hist", (("genotype", multi),))))
        # chained evaluations: the result of a state must not depend on what the process handled before
        solo = {}
        for st, o in results:
            if st[0] == "chain" and st[1] is None:
                solo[st[2]] = o.key
        for st, o in results:
            if st[0] == "chain" and st[1] is not None and st[2] in solo and o.key != solo[st[2]]:
                out.append(("chain/result-depends-on-earlier-evaluation", f"{o.note['state']} evaluated after {o.note['after']}: {o.key[2]} vs alone {solo[st[2]][2]}", st))
        # stage-level refinement of a tie-prone table under different hash seeds: every answer was checked to be optimal;
        # a different optimal refinement per seed is the known tie-choice finding
        tabs = {st[1]: o.key for st, o in results if st[0] == "seedtable"}
        if len(set(tabs.values())) > 1:
            out.append(("seed/tie-choice", f"tie-prone table, stage level: {len(set(tabs.values()))} different optimal refinements over hash seeds {sorted(tabs)}", ("seedtable", 0)))
        # hash seeds
        seeds = collections.defaultdict(dict)
        for st, o in results:
            if st[0] == "seed":
                seeds[st[2]][st[1]] = o.key
        for s, d in seeds.items():
            vals = set(d.values())
            if len(vals) > 1:
                out.append(("seed/output-depends-on-hash-seed", f"sample {s}: {d}", ("seed", 0, s)))
        return out

    def _eval_seedtable(self, st):
        """A tie-prone evidence table refined at stage level in a fresh process with hash seed k; the subprocess also
        says whether what it reports belongs to the enumerated complete optimal set."""
        k = st[1]
        script = f"""
import sys
sys.path.insert(0, {os.path.dirname(os.path.dirname(os.path.dirname(os.path.abspath(__file__))))!r})
from mc import repo; repo.setup()
from mc.props import c13
from mc import worlds
chk = c13.C13("quick", 0)
wk = worlds.WorldSpec(strands=('+', '-'), pseudo=True, indelmap=False, seqid=0, table='richd')
planted = (('10', '10.001'), ('10', '10.002'), ('12#1', '12#2.002'))
devs = (('set', ('var', (124, 'delA')), 10),)
mj, mn, _ = chk._run_table(wk, 'hg19', planted, devs, 0.0, 1)
opt = chk._optimal_readouts(chk._last)
print('RESULT', repr((mj, mn, all(x[1] in opt for x in mn))))
"""
        env = dict(os.environ, PYTHONHASHSEED=str(k), VERIF_REPO=repo.REPO)
        r = subprocess.run([sys.executable, "-W", "ignore", "-c", script], capture_output=True, text=True, env=env)
        line = [l for l in r.stdout.splitlines() if l.startswith("RESULT")]
        v = []
        if r.returncode != 0 or not line:
            v.append(("seed/run-failed", r.stderr[-400:]))
            return Outcome(v, key=("seedtable", None), nontrivial=True)
        mj, mn, optimal = eval(line[0][7:])
        if not optimal:
            v.append(("seed/reported-refinement-not-optimal", f"hash seed {k}: {mn}"))
        return Outcome(v, key=("seedtable", repr((mj, mn))), nontrivial=True, note={"hash_seed": k, "minor": repr(mn)[:300], "optimal": optimal})

    def _eval_seed(self, st):
        _, k, s = st
        P = build_files()
        script = f"""
import sys, warnings
warnings.filterwarnings('ignore')
sys.path.insert(0, {repo.REPO!r})
import logbook; logbook.NullHandler().push_application()
from aldy.genotype import genotype
import hashlib
out = {P['dir']!r} + '/seed_{os.getpid()}_{k}.aldy'
with open(out, 'w') as fh:
    res = genotype({(P['A'] if s == 0 else P['A'] + ',' + P['B'])!r}, {P['sample']!r}, {P['prof']!r}, output_file=fh, genome='hg19', gap={0.0 if s == 0 else 0.1})
text = open(out).read()
sc = sorted((round(x.score, 2), x.get_minor_diplotype()) for v in res.values() for x in v)
print(hashlib.md5(text.encode()).hexdigest(), sc)
"""
        env = dict(os.environ, PYTHONHASHSEED=str(k))
        r = subprocess.run([sys.executable, "-W", "ignore", "-c", script], capture_output=True, text=True, env=env)
        v = []
        if r.returncode != 0:
            v.append(("seed/run-failed", r.stderr[-400:]))
        return Outcome(v, key=r.stdout.strip()[-300:], nontrivial=True, note={"hash_seed": k, "sample": s, "output": r.stdout.strip()[:120]})

    # ------------------------------------------------------------------ candidates
    def _eval_cands(self, st):
        from aldy.profile import Profile

        _, i, order = st
        table, cands = cand_instances()[i]
        gene = worlds.gene_of(("toy",), "hg19")
        v, outcome = self._judge_candidates(gene, Profile("verif"), table, cands, order, f"instance {i}")
        return Outcome(v, key=("cands", i, tuple(outcome)), nontrivial=True, note={"instance": i, "order": order, "same_as_solo": outcome})

    def _judge_candidates(self, gene, p, table, cands, order, label):
        """Joint refinement of the candidates cands[j], j in order, against the solo refinement of each
        (three-way oracle: solo / solo under pooled inputs (D8) / tie among the pooled optimal set (D7))."""
        from aldy.solutions import CNSolution, MajorSolution, SolvedAllele
        from aldy.minor import estimate_minor, solve_minor_model
        from aldy.coverage import Coverage
        from aldy.gene import Mutation
        from ..ref import minor_ref

        def mk(c):
            struct, majors, novel, score = c
            return MajorSolution(score, collections.Counter({SolvedAllele(gene, M): k for M, k in majors.items()}),
                                 CNSolution(gene, 0, list(struct)), [Mutation(*m) for m in novel])

        def cov():
            return tables.to_coverage(gene, p, table)

        def key_of(ms):
            return (tuple(sorted(ms.cn_solution.solution.items())), tuple(sorted((a.major, c) for a, c in ms.solution.items())))

        def canon_res(sols, base):
            return sorted((round(s.score - base, 2), minor_ref.canon_solution(s)) for s in sols)

        S = [mk(cands[j]) for j in order]
        joint = estimate_minor(gene, cov(), S, "any")
        minscore = min(m.score for m in S)
        v = []
        outcome = []
        for j in order:
            X = mk(cands[j])
            solo = canon_res(estimate_minor(gene, cov(), [X], "any"), 0.0)
            jx = canon_res([s for s in joint if key_of(s.major_solution) == key_of(X)], X.score - minscore)
            outcome.append(jx == solo)
            if jx == solo:
                continue
            alleles, mutations = [], set()
            for ms in S:
                for sa in ms.solution:
                    alleles += [SolvedAllele(gene, sa.major, mi) for mi in gene.alleles[sa.major].minors]
                    mutations |= set(gene.alleles[sa.major].func_muts)
                    for mn in gene.alleles[sa.major].minors.values():
                        mutations |= set(mn.neutral_muts)
                mutations |= set(ms.added)
            mutations |= gene.random_mutations

            def flt(c, mut, cnsol=X.cn_solution):
                r = gene.region_at(mut.pos)
                if mut.op != "_" and not (mut in mutations or (r and r[1][0] == "e") or (r and r[1] in ["utr3", "utr5", "up"])):
                    return False
                cond = c.basic_filter(mut, cn=p.cn_max)
                if mut.op != "_":
                    cond = cond and c.basic_filter(mut, cn=cnsol.position_cn(mut.pos) + 0.5)
                return cond

            fc = cov().filtered(Coverage.quality_filter).filtered(flt)
            pooled1 = canon_res(solve_minor_model(gene, fc, X, alleles, mutations, "any", 1), 0.0)
            where = f"{label}, candidates {[cands[k][:2] for k in order]}, candidate {cands[j][:2]}"
            if jx == pooled1:
                v.append(("cands/pooled-considered-variants", f"{where}: alone {solo}, next to the others {jx} (= alone under the pooled candidate alleles and variants)"))
                continue
            pooled20 = canon_res(solve_minor_model(gene, fc, X, alleles, mutations, "any", 20), 0.0)
            if jx and all(x in pooled20 for x in jx) and pooled1 and abs(jx[0][0] - pooled1[0][0]) <= 1e-2:
                v.append(("cands/tie-choice", f"{where}: {jx} vs {pooled1}: equal-score members of one optimal set"))
                continue
            v.append(("cands/refinement-depends-on-other-candidates", f"{where}: alone {solo}; jointly {jx}; alone under pooled inputs {pooled1}"))
        return v, outcome


CHECK = C14
