"""C18 — model parameters take the values the user gave, through every route.

Exhaustive product: every model parameter of Profile (found by introspection) x every
spelling of a value for its type x route in {constructor / genotype(**params), command line
--param (underscore and hyphen forms, real main() with a recording stub for genotype()),
`options:` section of a profile file through Profile.load}, plus the history
write (profile command) -> load for single parameters and for pairs.
"""
import itertools

from ..explore import Check, Outcome

CTOR_FIELDS = ("name", "data", "cn_region", "neutral_value")


def model_params():
    from aldy.profile import Profile

    d = Profile("introspect").__dict__
    return {k: v for k, v in d.items() if k not in CTOR_FIELDS}


def spellings(default):
    """[(given value, expected value | REJECT)]"""
    R = "REJECT"
    if isinstance(default, bool):
        out = []
        for s, val in (("true", True), ("True", True), ("TRUE", True), ("false", False), ("False", False),
                       ("FALSE", False), ("1", True), ("0", False), (True, True), (False, False), (1, True), (0, False)):
            out.append((s, val))
        out += [("maybe", R), ("2", R), ("", R)]
        return out
    if isinstance(default, int):
        return [("7", 7), (7, 7), ("0", 0), (12, 12), ("3.7", R), ("x7", R), ("", R)]
    if isinstance(default, float):
        return [("0.25", 0.25), (0.25, 0.25), ("3", 3.0), (3, 3.0), ("1e-1", 0.1), ("abc", R), ("", R)]
    if isinstance(default, str):
        return [("map-ont", "map-ont"), ("I223M;rs1", "I223M;rs1")]
    return []


ROUTES = ("ctor", "cli_us", "cli_hy", "options", "load_kw")


class C18(Check):
    id = "C18"
    rule = "every (parameter, spelling, route) is a distinct case; non-trivial when the given value differs from the default or must be rejected"
    assumptions = [
        "a native non-integral float for an integer parameter is outside the menu (the property does not say whether it is malformed)",
        "the command line is driven through aldy.__main__.main with genotype() replaced by a recorder; the recorded keyword arguments are then applied exactly as genotype() does (Profile(..., **params))",
    ]
    min_distinct_outcomes = 3

    def initial_states(self):
        ps = model_params()
        for k, dv in sorted(ps.items()):
            if k == "cn_solution":
                for route in ("ctor", "cli_cn"):
                    yield ("cn", route, ("1", "1"))
                    yield ("cn", route, ("1", "4", "4"))
                continue
            yield ("default", k)
            for given, want in spellings(dv):
                for route in ROUTES:
                    if route.startswith("cli") and not isinstance(given, str):
                        continue        # the command line only carries strings
                    if route == "options" and given == "" and False:
                        continue
                    yield ("set", k, given, route)
            yield ("none", k)
        yield ("unknown", "no_such_parameter", "5", "ctor")
        yield ("unknown", "no_such_parameter", "5", "cli_us")
        yield ("unknown", "no_such_parameter", "5", "options")
        yield ("cli_malformed", "phase")          # --param without '='
        # the same parameter in the options section of the profile file AND given by the user: the user's value counts
        for k, dv in sorted(ps.items()):
            if k == "cn_solution":
                continue
            sp = [(g, w) for g, w in spellings(dv) if w != "REJECT"]
            if len(sp) >= 2:
                for (g1, w1), (g2, w2) in ((sp[0], sp[-1]), (sp[-1], sp[0])):
                    if w1 != w2:
                        yield ("override", k, g1, g2)
        # several parameters on one command line: repeated --param flags, one flag with several items, both mixed
        names = sorted(k for k in ps if k != "cn_solution")
        first = {}
        for k in names:
            sp = spellings(ps[k])
            first[k] = next((g for g, w in sp if w != "REJECT" and w != ps[k] and isinstance(g, str)), None)
        cli_names = [k for k in names if first[k] is not None]
        for i, a in enumerate(cli_names):
            for b in cli_names[i + 1:]:
                for form in ("repeat", "joined"):
                    yield ("cli_multi", form, ((a, first[a]), (b, first[b])))
            b, c = cli_names[(i + 1) % len(cli_names)], cli_names[(i + 2) % len(cli_names)]
            for form in ("joined+repeat", "repeat+joined", "repeat3"):
                yield ("cli_multi", form, ((a, first[a]), (b, first[b]), (c, first[c])))
        # write -> load histories
        names = sorted(k for k in ps if k != "cn_solution")
        for k in names:
            for given, want in spellings(ps[k]):
                yield ("roundtrip", ((k, given),))
        for a, b in itertools.combinations(names, 2):
            sa, sb = spellings(ps[a]), spellings(ps[b])
            # first non-default accepted spelling of each
            ga = next((g for g, w in sa if w != "REJECT" and w != ps[a]), sa[0][0])
            gb = next((g for g, w in sb if w != "REJECT" and w != ps[b]), sb[0][0])
            yield ("roundtrip", ((a, ga), (b, gb)))

    # ------------------------------------------------------------------
    def _apply(self, route, kv):
        """-> Profile or raises AldyException"""
        import os, io, sys, yaml, contextlib
        from aldy.profile import Profile
        from aldy.common import GRange
        from .. import worlds

        gene = worlds.gene_of(("toy",), "hg19")
        if route == "ctor":
            return Profile("user_provided", **kv)
        if route in ("options", "load_kw"):
            regions = {(gene.name, r, gi): rng for gi, gr in enumerate(gene.regions) for r, rng in gr.items()}
            data = Profile.get_sam_profile_data("<illumina>", regions=regions, cn_region=GRange("1", 1000, 2000), genome="hg19")
            if route == "options":
                data["options"] = dict(kv)
            path = os.path.join(worlds.tmpdir(), f"prof_{os.getpid()}.yml")
            with open(path, "w") as f:
                yaml.safe_dump(data, f)
            return Profile.load(gene, path, None, **(kv if route == "load_kw" else {}))
        if route in ("cli_us", "cli_hy", "cli_cn", "cli_raw", "cli_argv"):
            import aldy.__main__ as M

            rec = {}

            def fake(**kw):
                rec.update(kw)
                return {}

            argv = ["genotype", "-v", "critical", "-g", "toy", "-p", "illumina", "sample.bam"]
            if route == "cli_cn":
                argv += ["--cn", ",".join(kv["cn_solution"])]
            elif route == "cli_raw":
                argv += ["--param"] + list(kv["raw"])
            elif route == "cli_argv":
                argv += list(kv["argv"])
            else:
                items = [f"{k.replace('_', '-') if route == 'cli_hy' else k}={v}" for k, v in kv.items()]
                for it in items:
                    argv += ["--param", it]
            old = M.genotype
            M.genotype = fake
            M.common.log.disabled = True
            try:
                with contextlib.redirect_stderr(io.StringIO()), contextlib.redirect_stdout(io.StringIO()):
                    err = []
                    oldc, olde = M.log.critical, M.log.error
                    M.log.error = lambda *a, **k: err.append(a)
                    try:
                        try:
                            M.main(argv)
                        except SystemExit as ex:
                            err.append(("exit", ex.code))
                    finally:
                        M.log.critical, M.log.error = oldc, olde
            finally:
                M.genotype = old
                M.common.log.disabled = False
            if not rec:
                from aldy.common import AldyException
                raise AldyException(f"command line rejected: {err[:1]}")
            known = {"gene_db", "sam_path", "profile_name", "output_file", "cn_region", "cn_solution", "report",
                     "is_simple", "debug", "solver", "reference", "multiple_warn_level", "genome"}
            params = {k: v for k, v in rec.items() if k not in known}
            if rec.get("cn_solution"):
                return Profile("user_provided", cn_solution=rec["cn_solution"], **params)
            return Profile("user_provided", **params)
        raise ValueError(route)

    def evaluate(self, st):
        from aldy.common import AldyException
        from aldy.profile import Profile

        ps = model_params()
        kind = st[0]
        v = []
        if kind == "default":
            k = st[1]
            p = Profile("x")
            return Outcome([], key=("default", k, repr(getattr(p, k))), nontrivial=False)
        if kind == "none":
            k = st[1]
            p = Profile("x", **{k: None})
            if getattr(p, k) != ps[k]:
                v.append(("param/none-not-ignored", f"{k}=None gives {getattr(p, k)!r}"))
            return Outcome(v, key=("none",), nontrivial=False)
        if kind == "cn":
            _, route, names = st
            p = self._apply(route, {"cn_solution": list(names)})
            if list(p.cn_solution) != list(names):
                v.append(("param/cn-solution", f"{route}: {names} -> {p.cn_solution}"))
            return Outcome(v, key=("cn", route, tuple(p.cn_solution)), nontrivial=True)
        if kind == "unknown":
            _, k, val, route = st
            try:
                p = self._apply(route, {k: val})
                if hasattr(p, k):
                    v.append(("param/unknown-name-stored", f"{k} became an attribute"))
                if {a: b for a, b in p.__dict__.items() if a not in CTOR_FIELDS} != ps:
                    v.append(("param/unknown-name-changed-others", f"{route}"))
            except AldyException as ex:
                v.append(("param/unknown-name-rejected", f"{route}: {ex}"))
            return Outcome(v, key=("unknown", route), nontrivial=True)
        if kind == "override":
            import os, yaml
            from aldy.common import GRange
            from .. import worlds
            _, k, in_file, given = st
            gene = worlds.gene_of(("toy",), "hg19")
            regions = {(gene.name, r, gi): rng for gi, gr in enumerate(gene.regions) for r, rng in gr.items()}
            data = Profile.get_sam_profile_data("<illumina>", regions=regions, cn_region=GRange("1", 1000, 2000), genome="hg19")
            data["options"] = {k: in_file}
            path = os.path.join(worlds.tmpdir(), f"ov_{os.getpid()}.yml")
            with open(path, "w") as f:
                yaml.safe_dump(data, f)
            want = dict((repr(g), w) for g, w in spellings(ps[k]))[repr(given)]
            p = Profile.load(gene, path, None, **{k: given})
            if getattr(p, k) != want:
                v.append(("param/file-option-beats-user-value", f"{k}: options section says {in_file!r}, user gave {given!r}, result {getattr(p, k)!r}"))
            return Outcome(v, key=("override", k, repr(getattr(p, k))), nontrivial=True, note={"param": k, "file": repr(in_file), "given": repr(given)})
        if kind == "cli_multi":
            _, form, items = st
            toks = [f"{k.replace('_', '-') if i % 2 else k}={g}" for i, (k, g) in enumerate(items)]
            if form == "repeat" or form == "repeat3":
                argv = [x for t in toks for x in ("--param", t)]
            elif form == "joined":
                argv = ["--param"] + toks
            elif form == "joined+repeat":
                argv = ["--param", toks[0], toks[1], "--param", toks[2]]
            else:
                argv = ["--param", toks[0], "--param", toks[1], toks[2]]
            wants = {k: dict((repr(g), w) for g, w in spellings(ps[k]))[repr(g0)] for k, g0 in items}
            try:
                p = self._apply("cli_argv", {"argv": argv})
                for k, w in wants.items():
                    got = getattr(p, k)
                    if got != w or type(got) is not type(ps[k]):
                        v.append(("param/cli-several-parameters", f"{' '.join(argv)}: {k} -> {got!r}, expected {w!r}"))
                others = {a: b for a, b in p.__dict__.items() if a not in CTOR_FIELDS and a not in wants}
                if others != {a: b for a, b in ps.items() if a not in wants}:
                    v.append(("param/other-parameter-changed", f"{' '.join(argv)} changed {[a for a in others if others[a] != ps[a]]}"))
                outcome = ("ok", tuple(repr(getattr(p, k)) for k, _ in items))
            except AldyException as ex:
                v.append(("param/valid-rejected", f"{' '.join(argv)}: {ex}"))
                outcome = ("rejected",)
            return Outcome(v, key=("cli_multi", form, tuple(k for k, _ in items), outcome), nontrivial=True, note={"argv": " ".join(argv), "outcome": outcome})
        if kind == "cli_malformed":
            try:
                self._apply("cli_raw", {"raw": [st[1]]})
                v.append(("param/cli-missing-equals-accepted", "--param phase (no '=') was accepted"))
            except AldyException:
                pass
            return Outcome(v, key=("cli_malformed",), nontrivial=True)
        if kind == "set":
            _, k, given, route = st
            want = dict((repr(g), w) for g, w in spellings(ps[k]))[repr(given)]
            try:
                p = self._apply(route, {k: given})
                got = getattr(p, k)
                if want == "REJECT":
                    v.append(("param/malformed-accepted", f"{route}: {k}={given!r} accepted as {got!r}"))
                elif got != want or type(got) is not type(ps[k]):
                    v.append(("param/wrong-value", f"{route}: {k}={given!r} -> {got!r} ({type(got).__name__}), expected {want!r} ({type(ps[k]).__name__})"))
                others = {a: b for a, b in p.__dict__.items() if a not in CTOR_FIELDS and a != k}
                if others != {a: b for a, b in ps.items() if a != k}:
                    v.append(("param/other-parameter-changed", f"{route}: setting {k} changed {[a for a in others if others[a] != ps[a]]}"))
                outcome = ("ok", repr(got))
            except AldyException:
                if want != "REJECT":
                    v.append(("param/valid-rejected", f"{route}: {k}={given!r} rejected"))
                outcome = ("rejected",)
            return Outcome(v, key=(k, route, outcome), nontrivial=want == "REJECT" or want != ps[k],
                           note={"param": k, "given": repr(given), "route": route, "outcome": outcome})
        if kind == "roundtrip":
            import yaml, os
            from aldy.common import GRange
            from .. import worlds

            kv = dict(st[1])
            gene = worlds.gene_of(("toy",), "hg19")
            regions = {(gene.name, r, gi): rng for gi, gr in enumerate(gene.regions) for r, rng in gr.items()}
            wants = {k: dict((repr(g), w) for g, w in spellings(ps[k]))[repr(g0)] for k, g0 in kv.items()}
            try:
                data = Profile.get_sam_profile_data("<illumina>", regions=dict(regions), cn_region=GRange("1", 1000, 2000),
                                                    genome="hg19", params=dict(kv))
                text = yaml.dump(data, default_flow_style=None)       # what the profile command prints
                path = os.path.join(worlds.tmpdir(), f"rt_{os.getpid()}.yml")
                with open(path, "w") as f:
                    f.write(text)
                p = Profile.load(gene, path, None)
                if any(w == "REJECT" for w in wants.values()):
                    v.append(("param/roundtrip-malformed-accepted", f"{kv}"))
                else:
                    for k, w in wants.items():
                        got = getattr(p, k)
                        if got != w or type(got) is not type(ps[k]):
                            v.append(("param/roundtrip-value", f"written {k}={kv[k]!r}, loaded {got!r}, expected {w!r}"))
                outcome = ("ok", tuple(repr(getattr(p, k)) for k in sorted(kv)))
            except AldyException:
                if not any(w == "REJECT" for w in wants.values()):
                    v.append(("param/roundtrip-valid-rejected", f"{kv}"))
                outcome = ("rejected",)
            return Outcome(v, key=("rt", tuple(sorted(kv)), outcome), nontrivial=True, note={"written": repr(kv), "outcome": outcome})
        raise ValueError(kind)


CHECK = C18
