"""C06 — alignment evidence is a faithful pileup of the eligible reads.

(a) single reads through the real CIGAR walk (Sample._parse_read on a Sample shell):
    BFS over CIGAR strings — a transition appends one operation from {M,=,X,I,D,S} x
    length {1,2,3}; every state is evaluated at every start offset of a window that holds
    a SNV, two MNVs (one with a wildcard) and a deletion site, with the reference query and
    every single-base mismatch, the complete and the partial MNV; both strands.
(b) read sets through the real file path (Sample(gene, profile, path)): BFS over ordered
    read lists drawn from a menu of awkward reads; SAM text (file order kept) and BAM.
Oracle: mc/ref/pileup_ref.py (independent CIGAR interpreter), plus htslib's own pileup for (b).
"""
import collections
import os

from ..explore import Check, Outcome
from .. import worlds
from ..ref import pileup_ref
from ..worlds import COMP

OPS = "M=XIDS"
LENS = (1, 2, 3)
QPAT = (0, 9, 10, 25, 41)
QPAT2 = (0, 1, 2, 9, 10, 19, 20, 28, 29, 38, 39, 41, 25)     # both sides of every quality-class border


def pile_table(seq, with_indels=True):
    s = seq
    t = [
        ("1.001", (), None),
        ("2.001", ((150, f"{s[149]}>{COMP[s[149]]}", "rs150", "functional"),), None),
        ("5.001", ((152, f"{s[151:153]}>{COMP[s[151]] + COMP[s[152]]}", "rs152", "functional"),), None),
        ("6.001", ((160, f"{s[159]}.{s[161]}>{COMP[s[159]]}.{COMP[s[161]]}", "rs160", "functional"),), None),
        ("7.001", ((164, f"{s[163]}>{COMP[s[163]]}", "rs164"),), None),
    ]
    if with_indels:
        t.append(("3.001", ((156, f"del{s[155:157]}", "rs156", "frameshift"),), None))
        t.append(("4.001", ((158, "insTT", "rs158", "frameshift"),), None))
    return tuple(t)


def pile_spec(with_indels=True, indelmap=False):
    """with_indels: True / False / "pseudo" (indels and a pseudogene: gene regions outside the RefSeq-mapped part)"""
    seq = worlds.make_refseq(0)
    return worlds.WorldSpec(("+", "-"), with_indels == "pseudo", indelmap, 0, pile_table(seq, bool(with_indels)))


def window(world, build):
    ps = [world.gpos(build, r) for r in range(143, 168)]
    return min(ps), max(ps) + 1


def shell(gene):
    from aldy.sam import Sample
    sm = Sample.__new__(Sample)
    sm.gene = gene
    sm.phases = {}
    sm._indel_sites = {}
    sm._indel_sites_eqs = {}
    sm._multi_sites = {m.pos: m.op for a in gene.alleles.values() for m in a.func_muts if ">" in m.op and len(m.op) > 3}
    sm.phaseable = {pos: i for i, pos in enumerate(sorted({pos for pos, _ in gene.mutations}))}
    return sm


# ---------------------------------------------------------------- menu for the file path
def menu(world, build):
    G = world.genome(build)
    lo, hi = window(world, build)
    g = worlds.gene_of(world.spec, build)
    snv = [m for m in g.mutations if len(m[1]) == 3 and g.mutations[m][0]][0]
    mnv = [m for m in g.mutations if ">" in m[1] and len(m[1]) == 5][0]
    st = lo - 8

    def ref(a, n):
        return G[a:a + n]

    def with_sub(a, n, subs):
        s = list(G[a:a + n])
        for p, b in subs:
            s[p - a] = b
        return "".join(s)

    l, r = mnv[1].split(">")
    mnv_subs = [(mnv[0] + k, r[k]) for k in range(len(l))]
    neutral = worlds.OFFS[build][2] - 1
    M = [
        ("plain", 0, st, "30M", ref(st, 30)),
        ("snv", 0, st + 2, "30M", with_sub(st + 2, 30, [(snv[0], snv[1][2])])),
        ("mnv", 0, st + 1, "30M", with_sub(st + 1, 30, mnv_subs)),
        ("ins", 0, st, "12M2I18M", ref(st, 12) + "GG" + ref(st + 12, 18)),
        ("leadins", 0, st + 3, "2I28M", "CC" + ref(st + 3, 28)),
        ("insdel", 0, st, "10M1I2D17M", ref(st, 10) + "T" + ref(st + 12, 17)),
        ("soft", 0, st + 5, "5S25M", "AAAAA" + ref(st + 5, 25)),
        ("hard", 0, st + 5, "5H25M", ref(st + 5, 25)),
        ("supp", 2048, st, "30M", with_sub(st, 30, [(snv[0], snv[1][2])])),
        ("secondary", 256, st, "30M", ref(st, 30)),
        ("dup", 1024, st + 4, "30M", ref(st + 4, 30)),
        ("unmapped", 4, st, "*", ref(st, 30)),
        ("outside", 0, neutral + 10, "30M", ref(neutral + 10, 30)),
        ("plain", 0, st + 12, "30M", ref(st + 12, 30)),       # second read of the fragment "plain"
        ("noqual", 0, st + 6, "30M", ref(st + 6, 30)),
        ("del", 0, st, "14M2D16M", ref(st, 14) + ref(st + 16, 16)),
        ("eqx", 0, st, "10=1X19=", with_sub(st, 30, [(st + 10, COMP[G[st + 10]])])),
    ]
    wide = g.get_wide_region()
    span = wide.end - wide.start + 60
    # one alignment that covers the whole locus and overhangs it on both sides (long read)
    if span < 1000:
        M.append(("spanning", 0, wide.start - 30, f"{span}M", ref(wide.start - 30, span)))
    # mismatches exactly on the first and on the last base of the RefSeq-mapped part
    b0, b1 = min(g.chr_to_ref), max(g.chr_to_ref)
    M.append(("firstbase", 0, b0 - 12, "30M", with_sub(b0 - 12, 30, [(b0, COMP[G[b0]])])))
    M.append(("lastbase", 0, b1 - 17, "30M", with_sub(b1 - 17, 30, [(b1, COMP[G[b1]])])))
    if world.spec.pseudo:
        p0 = world.offs(build)[1] - 1 + 140
        M.append(("pseudo_del", 0, p0, "14M2D16M", ref(p0, 14) + ref(p0 + 16, 16)))
        M.append(("pseudo_del2", 0, p0 + 4, "12M1D18M", ref(p0 + 4, 12) + ref(p0 + 17, 18)))
        M.append(("pseudo_mis", 0, p0 + 2, "30M", with_sub(p0 + 2, 30, [(p0 + 14, COMP[G[p0 + 14]])])))
        M.append(("pseudo_ins", 0, p0 + 6, "10M2I18M", ref(p0 + 6, 10) + "GG" + ref(p0 + 16, 18)))
    return M


def write_reads(path, reads, sam_text):
    import pysam
    hdr = {"HD": {"VN": "1.0", "SO": "unsorted" if sam_text else "coordinate"}, "SQ": [{"SN": "7", "LN": worlds.CHRLEN}]}
    items = list(reads) if sam_text else sorted(reads, key=lambda r: r[2])
    with pysam.AlignmentFile(path, "w" if sam_text else "wb", header=hdr) as f:
        for i, (name, flag, pos, cig, seq, mq, q) in enumerate(items):
            a = pysam.AlignedSegment()
            a.query_name = name
            a.query_sequence = seq
            a.flag = flag
            a.reference_id = 0
            a.reference_start = pos
            a.mapping_quality = mq
            if cig != "*":
                a.cigarstring = cig
            if name != "noqual":
                a.query_qualities = pysam.qualitystring_to_array(chr(33 + q) * len(seq))
            f.write(a)
    if not sam_text:
        pysam.index(path)


class C06(Check):
    id = "C06"
    rule = ("non-trivial: the CIGAR has an operation other than a plain match, or the query shows a mismatch/MNV; "
            "for files: more than one read or an ineligible read")
    assumptions = [
        "quality check: the stored (mapping, base) quality of a matched base must lie in the quality class of the raw value (classes 0-1, 2-9, 10-19, 20-28, 29-38, >=39); qualities of deleted bases, insertions and merged MNVs are not constrained by the property",
        "eligible = aligned (has a CIGAR and a sequence), not supplementary, not hard-clipped, overlapping the gene locus; secondary and duplicate alignments count (the property does not exclude them)",
        "only positions inside a named gene region are compared",
    ]

    def bound(self):
        return 3 if self.tier == "quick" else 4

    def _eval_shipped_bam(self, st):
        """The shipped CYP2D6 BAMs: depth and per-variant counts of the real loading path against the independent
        interpreter run over htslib's records."""
        import pysam
        from aldy.profile import Profile
        from aldy.sam import Sample
        from .. import repo

        _, name, build = st
        path = os.path.join(repo.REPO, "aldy", "tests", "resources", name)
        gene = worlds.gene_of(("shipped", "cyp2d6"), build)
        sm = Sample(gene, Profile("user_provided", cn_solution=["1", "1"]), path)
        wide = gene.get_wide_region()
        exp = collections.Counter()
        n = 0
        with pysam.AlignmentFile(path) as f:
            prefix = "chr" if any(s["SN"].startswith("chr") for s in f.header["SQ"]) else ""
            for r in f.fetch(region=f"{prefix}{gene.chr}:{wide.start - 500}-{wide.end + 1}"):
                if not r.cigartuples or r.is_supplementary or "H" in r.cigarstring or not r.query_sequence:
                    continue
                if not (r.reference_start <= wide.start <= r.reference_end or wide.start <= r.reference_start <= wide.end):
                    continue
                n += 1
                pc, ins = pileup_ref.pileup_of_read(gene, r.reference_start, pileup_ref.parse_cigar(r.cigarstring), r.query_sequence)
                exp.update(pc)
        bounds = (min(gene.chr_to_ref), max(gene.chr_to_ref))
        e2, g2 = collections.Counter(), collections.Counter()
        for (pos, op), k in exp.items():
            if gene.region_at(pos) is not None:
                e2[pos, op if bounds[0] <= pos <= bounds[1] else "*"] += k
        for pos, d_ in sm.coverage._coverage.items():
            if gene.region_at(pos) is None:
                continue
            for op, lst in d_.items():
                if not op.startswith("ins"):
                    g2[pos, op if bounds[0] <= pos <= bounds[1] else "*"] += len(lst)
        v = []
        if e2 != g2:
            diff = sorted((k, g2.get(k, 0), e2.get(k, 0)) for k in set(e2) | set(g2) if e2.get(k, 0) != g2.get(k, 0))[:5]
            v.append(("shipped-bam/pileup", f"{name}: (pos, op): aldy, interpreter = {diff}"))
        return Outcome(v, key=("shipped", name, n, sum(g2.values())), nontrivial=True, counters={"shipped_reads": n},
                       note={"bam": name, "eligible_reads": n, "observations": sum(g2.values())})

    def describe(self, st):
        if st[0] == "file":
            _, wi, build, sam_text, idx = st
            M = menu(worlds.world(pile_spec(wi)), build)
            return (f"file world={'indels+pseudogene' if wi == 'pseudo' else 'indels' if wi else 'no-indels'} build={build} format={'sam' if sam_text else 'bam'} "
                    f"reads=[{','.join(M[i][0] for i in idx)}] idx={idx}")
        return repr(st)

    def max_states(self):
        return 700000

    def initial_states(self):
        for build in ("hg19", "hg38"):
            for wi in (True, False):
                if self.tier == "quick" and not wi and build == "hg38":
                    continue
                for op in OPS:
                    for n in LENS:
                        yield ("cigar", wi, build, ((op, n),))
        for sam_text in (True, False):
            for wi in (True, False):
                if sam_text and wi:
                    continue     # indel realignment needs an indexed BAM
                yield ("file", wi, "hg19" if wi else "hg38", sam_text, ())
        yield ("file", "pseudo", "hg38", False, ())
        if self.tier == "thorough":
            yield ("shipped_bam", "NA10860.bam", "hg19")
            yield ("shipped_bam", "NA10860_hg38.bam", "hg38")

    def successors(self, st):
        if st[0] == "shipped_bam":
            return
        if st[0] == "cigar":
            _, wi, build, cig = st
            four_ops_slice = None
            if self.tier == "quick" and len(cig) >= 3:
                # quick: all CIGARs of <= 3 operations everywhere; of the 4-operation ones a seed-rotated
                # eighth on one strand (the thorough tier has all of them on both)
                if not (wi and build == ("hg19", "hg38")[self.seed % 2]):
                    return
                four_ops_slice = self.seed % 8
            for op in OPS:
                if op == "S" and len(cig) >= 1 and any(o != "S" for o, _ in cig) and False:
                    continue
                for n in LENS:
                    new = cig + ((op, n),)
                    # soft clips only at the ends
                    inner = [o for o, _ in new[1:-1]]
                    if "S" in inner:
                        continue
                    if new[0][0] == "S" and len(new) > 1 and new[1][0] == "S":
                        continue
                    if cig[-1][0] == "S" and len(cig) > 1:
                        continue       # nothing may follow a trailing soft clip
                    if four_ops_slice is not None and (sum((ord(o) * 7 + k) * (i + 3) for i, (o, k) in enumerate(new)) % 8) != four_ops_slice:
                        continue
                    yield (f"{n}{op}", ("cigar", wi, build, new))
        else:
            _, wi, build, sam_text, reads = st
            maxr = 2 if self.tier == "quick" else 3
            if len(reads) >= maxr:
                return
            w = worlds.world(pile_spec(wi))
            for i in range(len(menu(w, build))):
                if len(reads) == 2 and self.tier == "thorough" and (i + len(reads)) % 2 and sam_text:
                    continue
                yield (f"+read{i}", ("file", wi, build, sam_text, reads + (i,)))

    # ------------------------------------------------------------------ single reads
    def evaluate(self, st):
        if st[0] == "shipped_bam":
            return self._eval_shipped_bam(st)
        if st[0] == "cigar":
            return self._eval_cigar(st)
        return self._eval_file(st)

    def _eval_cigar(self, st):
        _, wi, build, cig = st
        spec = pile_spec(wi)
        w = worlds.world(spec)
        gene = worlds.gene_of(spec, build)
        G = w.genome(build)
        lo, hi = window(w, build)
        rlen = sum(n for o, n in cig if o in "M=XD")
        v = []
        nreads = 0
        nontriv = any(o != "M" for o, _ in cig)
        outcomes = set()
        if rlen == 0:
            # no reference base consumed: nothing may be counted at any position
            pass
        cigt = [(pileup_ref.OPCODE[o], n) for o, n in cig]
        mnvs = pileup_ref.functional_mnvs(gene)
        for start in range(lo, hi - max(rlen, 1) + 1):
            q, cols = [], []
            r = start
            for o, n in cig:
                if o in "M=X":
                    for i in range(n):
                        cols.append((len(q), r + i))
                        q.append(G[r + i])
                    r += n
                elif o in "IS":
                    q += ["G" if G[r] != "G" else "T"] * n if r < len(G) else ["G"] * n
                elif o == "D":
                    r += n
            variants = [None] + [("sub", k, COMP[q[qi]]) for k, (qi, rp) in enumerate(cols)]
            colpos = {rp: qi for qi, rp in cols}
            for pos, op in mnvs.items():
                l, rr = op.split(">")
                comps = [(pos + k, rr[k]) for k in range(len(l)) if l[k] != "."]
                if all(p in colpos for p, _ in comps):
                    variants.append(("multi", comps))
                if comps[0][0] in colpos:
                    variants.append(("multi", comps[:1]))
                if all(p in colpos for p, _ in comps) and len(l) == 3 and l[1] == "." and (pos + 1) in colpos:
                    variants.append(("multi", comps + [(pos + 1, COMP[G[pos + 1]])]))   # wildcard position changed too
            for var in variants:
                qq = list(q)
                if var and var[0] == "sub":
                    qq[cols[var[1]][0]] = var[2]
                elif var:
                    for p, b in var[1]:
                        qq[colpos[p]] = b
                seq = "".join(qq)
                quals = [QPAT2[(i + start) % 13] for i in range(len(seq))]
                mq = QPAT2[(len(cig) + start) % 13] if QPAT2[(len(cig) + start) % 13] != 41 else 60
                sm = shell(gene)
                norm, muts = collections.defaultdict(list), collections.defaultdict(list)
                sm._parse_read("frag", start, cigt, seq, norm, muts, mq, quals)
                nreads += 1
                exp, ins = pileup_ref.pileup_of_read(gene, start, cig, seq)
                got = collections.Counter()
                for p, lst in norm.items():
                    if lst:
                        got[p, "_"] += len(lst)
                gins = []
                for (p, o), lst in muts.items():
                    if o.startswith("ins"):
                        gins += [(p, o[3:])] * len(lst)
                    elif lst:
                        got[p, o] += len(lst)
                exp = +exp
                if got != exp:
                    dg = collections.Counter(p for (p, o) in got.elements())
                    de = collections.Counter(p for (p, o) in exp.elements())
                    sig = "pileup/depth" if dg != de else ("pileup/mnv" if var and var[0] == "multi" else "pileup/observation")
                    v.append((sig, f"{build} start {start} cigar {cig} query {seq}: got {sorted(got.items())[:8]} expected {sorted(exp.items())[:8]}"))
                if sorted(gins) != sorted(ins):
                    v.append(("pileup/insertion", f"{build} start {start} cigar {cig}: insertions {gins} vs {ins}"))
                # qualities of matched bases
                obs, _ = pileup_ref.interpret(gene, start, cig, seq)
                merged = {(p, o) for (p, o) in exp if o in mnvs.values()}
                if not merged:
                    want = collections.defaultdict(list)
                    for p, o, qi in obs:
                        if qi is not None:
                            want[p, o].append((mq, quals[qi]))
                    for (p, o), raws in want.items():
                        lst = norm[p] if o == "_" else muts[p, o]
                        if len(lst) != len(raws):
                            continue
                        for (bm, bq), (rm, rq) in zip(lst, raws):
                            a, b = pileup_ref.bin_interval(rm)
                            c, d = pileup_ref.bin_interval(rq)
                            if not (a <= bm <= b and c <= bq <= d):
                                v.append(("pileup/quality", f"start {start} cigar {cig}: observation {(p, o)} stored {(bm, bq)} for raw {(rm, rq)}"))
                # phase record
                shown, aligned = pileup_ref.shown_alleles(gene, start, cig, seq)
                ph = sm.phases.get("frag", {})
                for p in sm.phaseable:
                    if p in aligned and p not in ph:
                        v.append(("phase/site-missing", f"start {start} cigar {cig}: catalogued site {p} is covered by an aligned base but has no phase entry"))
                for p, a in ph.items():
                    if p not in sm.phaseable:
                        v.append(("phase/not-a-catalogued-site", f"{p}"))
                    elif a not in shown.get(p, set()):
                        v.append(("phase/allele-not-shown", f"start {start} cigar {cig} query {seq}: phase[{p}]={a}, read shows {sorted(shown.get(p, set()))}"))
                outcomes.add(tuple(sorted(o for (p, o) in got if o != "_")))
                if var:
                    nontriv = True
            if len(v) > 20:
                break
        return Outcome(v[:20], key=(len(cig), tuple(sorted(outcomes))[:3]), nontrivial=nontriv, counters={"reads": nreads},
                       note={"cigar": "".join(f"{n}{o}" for o, n in cig), "build": build, "reads": nreads})

    # ------------------------------------------------------------------ files
    def _eval_file(self, st):
        import pysam
        from aldy.profile import Profile
        from aldy.sam import Sample
        from aldy.common import AldyException

        _, wi, build, sam_text, idx = st
        spec = pile_spec(wi)
        w = worlds.world(spec)
        gene = worlds.gene_of(spec, build)
        M = menu(w, build)
        reads = []
        for k, i in enumerate(idx):
            name, flag, pos, cig, seq = M[i]
            reads.append((name, flag, pos, cig, seq, (60, 9, 10, 25, 0)[(i + k) % 5] if name != "noqual" else 60, QPAT[(i + 2 * k + 4) % 5]))
        d = worlds.tmpdir()
        path = os.path.join(d, f"c06_{os.getpid()}.{'sam' if sam_text else 'bam'}")
        write_reads(path, reads, sam_text)
        p = Profile("user_provided", cn_solution=["1", "1"])
        v = []
        try:
            sm = Sample(gene, p, path)
        except AldyException as ex:
            return Outcome([("file/rejected", f"{[M[i][0] for i in idx]}: {ex}")], key=("rejected",))
        wide = gene.get_wide_region()
        exp = collections.Counter()
        expq = collections.defaultdict(list)
        elig = 0
        for (name, flag, pos, cig, seq, mq, q) in reads:
            if cig == "*" or flag & 2048 or flag & 4 or "H" in cig:
                continue
            c = pileup_ref.parse_cigar(cig)
            end = pos + sum(n for o, n in c if o in "M=XDN")
            if not (pos <= wide.start <= end or wide.start <= pos <= wide.end):
                continue
            elig += 1
            pc, ins = pileup_ref.pileup_of_read(gene, pos, c, seq)
            exp.update(pc)
        lo, hi = gene._lookup_range
        bounds = (min(gene.chr_to_ref), max(gene.chr_to_ref))
        exp2 = collections.Counter()
        for (pos, op), n in exp.items():
            if gene.region_at(pos) is None:
                continue
            if not bounds[0] <= pos <= bounds[1]:
                op = "*"          # outside the RefSeq-mapped part only the depth is defined
            exp2[pos, op] += n
        got = collections.Counter()
        for pos, d_ in sm.coverage._coverage.items():
            if gene.region_at(pos) is None:
                continue
            for op, lst in d_.items():
                if op.startswith("ins"):
                    continue
                if not bounds[0] <= pos <= bounds[1]:
                    op = "*"
                got[pos, op] += len(lst)
        if got != exp2:
            dg = collections.Counter()
            de = collections.Counter()
            for (p_, o), n in got.items():
                dg[p_] += n
            for (p_, o), n in exp2.items():
                de[p_] += n
            sig = "file/depth" if dg != de else "file/observation"
            diff = sorted(((k, got.get(k, 0), exp2.get(k, 0)) for k in set(got) | set(exp2) if got.get(k, 0) != exp2.get(k, 0)))[:6]
            v.append((sig, f"reads {[M[i][0] for i in idx]} ({'sam' if sam_text else 'bam'}): (pos, op): got, expected = {diff}"))
        # accessor: total() = non-insertion observations
        for pos in {p_ for p_, _ in exp2}:
            t = sum(n for (p_, o), n in exp2.items() if p_ == pos)
            if sm.coverage.total(pos) != t:
                v.append(("file/total-accessor", f"total({pos}) = {sm.coverage.total(pos)}, eligible reads spanning it {t}"))
                break
        # htslib's own pileup as a second oracle for the depth
        if not sam_text and reads:
            with pysam.AlignmentFile(path) as f:
                depth = collections.Counter()
                for r in f.fetch():
                    if r.is_supplementary or r.is_unmapped or not r.cigartuples or "H" in r.cigarstring:
                        continue
                    if not (r.reference_start <= wide.start <= r.reference_end or wide.start <= r.reference_start <= wide.end):
                        continue
                    for qp, rp in r.get_aligned_pairs():
                        if rp is not None and gene.region_at(rp) is not None:
                            # deleted bases have qp None and still count; N-skips do not occur in the menu
                            depth[rp] += 1
                dg = collections.Counter()
                for (p_, o), n in got.items():
                    dg[p_] += n
                if +depth != +dg:
                    v.append(("file/depth-vs-htslib", f"reads {[M[i][0] for i in idx]}: aldy depth differs from htslib aligned pairs at {[k for k in set(depth) | set(dg) if depth.get(k, 0) != dg.get(k, 0)][:5]}"))
        # phase record per fragment
        frag = collections.defaultdict(lambda: (collections.defaultdict(set), set()))
        for (name, flag, pos, cig, seq, mq, q) in reads:
            if cig == "*" or flag & 2048 or flag & 4 or "H" in cig:
                continue
            c = pileup_ref.parse_cigar(cig)
            end = pos + sum(n for o, n in c if o in "M=XDN")
            if not (pos <= wide.start <= end or wide.start <= pos <= wide.end):
                continue
            shown, aligned = pileup_ref.shown_alleles(gene, pos, c, seq)
            for p_, s in shown.items():
                frag[name][0][p_] |= s
            frag[name][1].update(aligned)
        for name, ph in sm.phases.items():
            if name not in frag:
                if ph:
                    v.append(("phase/ineligible-read-recorded", f"{name}: {ph}"))
                continue
            for p_, a in ph.items():
                if a not in frag[name][0].get(p_, set()):
                    v.append(("phase/allele-not-shown", f"fragment {name}: phase[{p_}]={a}, reads show {sorted(frag[name][0].get(p_, set()))}"))
        for name, (shown, aligned) in frag.items():
            for p_ in sm.phaseable:
                if p_ in aligned and p_ not in sm.phases.get(name, {}):
                    v.append(("phase/site-missing", f"fragment {name}: site {p_}"))
        nontriv = len(idx) > 1 or elig != len(idx)
        return Outcome(v, key=("file", elig, len(got), sum(got.values())), nontrivial=nontriv, counters={"files": 1},
                       note={"reads": [M[i][0] for i in idx], "format": "sam" if sam_text else "bam", "eligible": elig})


CHECK = C06
