"""bin/check <id> [--tier quick|thorough] [--replay FILE] [--jobs N]"""
import argparse
import json
import os
import sys
import time

from . import explore, findings

ROOT = os.path.dirname(os.path.dirname(os.path.abspath(__file__)))


def module_of(pid):
    return f"mc.props.{pid.lower()}"


def validate_evidence(ev):
    """Minimal structural check mirroring /root/.vp/EVIDENCE.schema.json (model_checking)."""
    for k in ("property_id", "tier", "seed", "level", "coverage", "wall_s"):
        assert k in ev, k
    c = ev["coverage"]
    assert ev["tier"] in ("quick", "thorough") and isinstance(ev["seed"], int)
    for k in ("states", "transitions"):
        assert isinstance(c[k], int) and c[k] >= 1, k
    assert isinstance(c["traces_validated_against_impl"], int)
    assert isinstance(c["samples"], list) and len(c["samples"]) >= 1


def main(argv=None):
    ap = argparse.ArgumentParser()
    ap.add_argument("pid")
    ap.add_argument("--tier", default=os.environ.get("VERIF_TIER", "quick"), choices=["quick", "thorough"])
    ap.add_argument("--replay")
    ap.add_argument("--jobs", type=int, default=0)
    ap.add_argument("--no-evidence", action="store_true")
    a = ap.parse_args(argv)
    pid = a.pid.upper()
    seed = int(os.environ.get("VERIF_SEED", "0") or 0)

    if a.replay:
        d, o = explore.replay(a.replay)
        known = findings.load()
        bad = 0
        for sig, msg in o.violations:
            e = findings.match(pid, sig, d.get("state_repr", ""), known)
            if e:
                print(f"KNOWN-FINDING: property={pid} {e['what']}")
            else:
                bad += 1
                print(f"VIOLATION property={pid} replay={a.replay}")
                print(f"  signature: {sig}\n  {msg.strip()[:2000]}")
        if not o.violations:
            print(f"replay of {a.replay}: no violation (state holds on this tree)")
        return 1 if bad else 0

    res = explore.explore(module_of(pid), a.tier, seed, jobs=a.jobs or None)
    check = res.check
    known = findings.load()
    reported = {}
    known_hit = {}
    for sig, msg, st, depth in res.violations:
        desc = check.describe(st)
        e = findings.match(pid, sig, desc, known)
        if e:
            known_hit.setdefault(e["id"], [e, 0])[1] += 1
            continue
        if sig not in reported:
            reported[sig] = [msg, st, depth, 0]
        reported[sig][3] += 1

    vacuous = None
    if len(res.outcomes) < check.min_distinct_outcomes:
        vacuous = (f"harness self-check failed: only {len(res.outcomes)} distinct outcome(s) from "
                   f"{res.evaluations} executions (expected >= {check.min_distinct_outcomes})")

    ev = {
        "property_id": pid, "tier": a.tier, "seed": seed, "level": "model_checking",
        "coverage": {
            "states": res.states, "transitions": res.transitions,
            "traces_validated_against_impl": res.evaluations,
            "evaluations": res.evaluations,
            "distinct_nontrivial": res.nontrivial,
            "rule": check.rule,
            "samples": res.samples,
            "distinct_outcomes": len(res.outcomes),
            "deviation_bound_completed": res.depth_completed,
            "deviation_bound_requested": check.bound(),
            "search_closed_before_bound": bool(res.closed),
            "levels": res.levels,
            "caps_hit": res.caps,
            "exhaustive": bool(res.exhaustive and not res.caps),
            "counters": res.counters,
            "known_findings_seen": {k: v[1] for k, v in known_hit.items()},
            "explorer": "mc/explore.py breadth-first by deviation count, canonical de-duplication; "
                        "every state executed on the working tree in $VERIF_REPO",
        },
        "assumptions": list(check.assumptions),
        "wall_s": round(res.wall, 2),
        "violations": sum(v[3] for v in reported.values()),
    }
    if not a.no_evidence:
        validate_evidence(ev)
        os.makedirs(os.path.join(ROOT, "evidence"), exist_ok=True)
        with open(os.path.join(ROOT, "evidence", f"{pid}.json"), "w") as f:
            json.dump(ev, f, indent=1, default=repr)

    print(f"[{pid}] tier={a.tier} seed={seed} states={res.states} transitions={res.transitions} "
          f"executions={res.evaluations} nontrivial={res.nontrivial} distinct_outcomes={len(res.outcomes)} "
          f"depth_completed={res.depth_completed}/{check.bound()} caps={len(res.caps)} "
          f"counters={res.counters} wall={res.wall:.1f}s")
    for k, (e, n) in sorted(known_hit.items()):
        print(f"KNOWN-FINDING: property={pid} {e['what']} [{n} state(s)]")
    rc = 0
    for sig, (msg, st, depth, n) in sorted(reported.items()):
        path = explore.write_replay(ROOT, pid, module_of(pid), a.tier, seed, sig, msg, st, check)
        print(f"VIOLATION property={pid} replay={path}")
        print(f"  signature: {sig} ({n} state(s), first at depth {depth})")
        print("  " + msg.strip()[:1500].replace("\n", "\n  "))
        print(f"  state: {check.describe(st)[:800]}")
        rc = 1
    if vacuous:
        print(f"HARNESS-ERROR property={pid} {vacuous}")
        rc = rc or 2
    return rc


if __name__ == "__main__":
    sys.exit(main())
