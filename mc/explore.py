"""Bounded exhaustive explorer (explicit-state, breadth-first by deviation count).

A property module provides a `Check` subclass.  States are plain picklable data.  The
explorer

* starts from `initial_states` (the 0-deviation / depth-0 states; each counts as one edge
  from a virtual root),
* evaluates every state of a level on the real implementation (fan-out to worker
  processes; every evaluation is one execution of aldy plus the oracle),
* expands each state with `successors` (exactly one more deviation / operation),
  de-duplicates children by `canon` and proceeds level by level up to `bound`,
* optionally prunes expansion at states whose *reached* digest (`Outcome.digest`) was seen
  before (explicit-state search over histories),
* reports states, transitions, evaluations, distinct outcomes, non-trivial states, caps.

Nothing is sampled: the quick tier is a fixed sub-space of the thorough tier (see DESIGN
§3.6); `seed` only selects which exhaustive slice is added to the fixed core.
"""
import base64
import hashlib
import importlib
import json
import multiprocessing as mp
import os
import pickle
import sys
import time
import traceback


class Outcome:
    __slots__ = ("violations", "key", "nontrivial", "digest", "counters", "note")

    def __init__(self, violations=None, key=None, nontrivial=False, digest=None,
                 counters=None, note=None):
        self.violations = list(violations or [])  # [(signature, message)]
        self.key = key                # hashable summary of what the implementation returned
        self.nontrivial = bool(nontrivial)
        self.digest = digest          # canonical digest of the state *reached* (histories)
        self.counters = counters or {}
        self.note = note              # small json-able description for samples

    def pack(self):
        return (self.violations, self.key, self.nontrivial, self.digest, self.counters,
                self.note)

    @staticmethod
    def unpack(t):
        return Outcome(*t)


class Check:
    """Base class of a property module's check."""

    id = "C00"
    rule = ""                 # what makes a state non-trivial, in words
    assumptions = []
    min_distinct_outcomes = 2  # self-check of the harness (vacuity)

    def __init__(self, tier, seed):
        self.tier = tier
        self.seed = seed

    # --- to be provided -------------------------------------------------------------
    def bound(self):
        return 0

    def initial_states(self):
        raise NotImplementedError

    def successors(self, state):
        return ()

    def canon(self, state):
        return state

    def evaluate(self, state):
        raise NotImplementedError

    def finalize(self, results):
        """Cross-state oracle; `results` = list of (state, Outcome). Returns violations
        [(signature, message, state)]."""
        return []

    def describe(self, state):
        r = repr(state)
        return r if len(r) < 1500 else r[:1500] + "…"

    def max_states(self):
        return None

    def worker_setup(self):
        pass


_CHECK = None


def _load(module, tier, seed):
    mod = importlib.import_module(module)
    return mod.CHECK(tier, seed)


def _init_worker(module, tier, seed):
    global _CHECK
    from . import repo

    repo.setup()
    _CHECK = _load(module, tier, seed)
    _CHECK.worker_setup()


def aldy_frame(tb):
    """Innermost frame inside the aldy package (for exception signatures)."""
    site = None
    for fs in traceback.extract_tb(tb):
        if "/aldy/" in fs.filename and "/verif/" not in fs.filename:
            site = f"{os.path.basename(fs.filename)}:{fs.name}"
    return site


def _eval_chunk(chunk):
    out = []
    for idx, state in chunk:
        t0 = time.time()
        try:
            o = Outcome([], key=None) if os.environ.get("VERIF_DRY") else _CHECK.evaluate(state)
        except Exception as ex:  # an unexpected exception is itself a finding
            site = aldy_frame(ex.__traceback__) or "harness"
            msg = "".join(traceback.format_exception(type(ex), ex, ex.__traceback__))[-1500:]
            o = Outcome([(f"exception/{type(ex).__name__}@{site}", msg)], key=("EXC",))
        if time.time() - t0 > float(os.environ.get("VERIF_SLOW", "30")):
            print(f"[slow] {time.time() - t0:.0f}s {_CHECK.describe(state)[:300]}", file=sys.stderr, flush=True)
        out.append((idx, o.pack()))
    return out


def _succ_chunk(chunk):
    out = []
    for idx, state in chunk:
        out.append((idx, [(lab, ch, _CHECK.canon(ch)) for lab, ch in _CHECK.successors(state)]))
    return out


def _chunks(items, n):
    for i in range(0, len(items), n):
        yield items[i:i + n]


class Result:
    def __init__(self):
        self.states = 0
        self.transitions = 0
        self.evaluations = 0
        self.nontrivial = 0
        self.outcomes = set()
        self.violations = []   # (signature, message, state, depth)
        self.levels = []
        self.caps = []
        self.counters = {}
        self.samples = []
        self.depth_completed = -1
        self.exhaustive = True
        self.closed = False


def explore(module, tier, seed, jobs=None, progress=True):
    from . import repo

    repo.setup()
    import shutil
    import tempfile
    tmproot = tempfile.mkdtemp(prefix="verif-aldy-run-")
    os.environ["VERIF_TMPROOT"] = tmproot
    check = _load(module, tier, seed)
    check.worker_setup()
    jobs = jobs or int(os.environ.get("VERIF_JOBS", "0")) or min(16, os.cpu_count() or 4)
    res = Result()
    t0 = time.time()
    ctx = mp.get_context("fork")
    pool = ctx.Pool(jobs, initializer=_init_worker, initargs=(module, tier, seed)) if jobs > 1 else None
    if pool is None:
        global _CHECK
        _CHECK = check

    def pmap(fn, items, chunk=None):
        items = list(items)
        if not items:
            return []
        n = chunk or max(1, min(200, len(items) // (jobs * 6) or 1))
        cs = list(_chunks(items, n))
        outs = pool.imap_unordered(fn, cs) if pool else map(fn, cs)
        flat = []
        for o in outs:
            flat.extend(o)
        flat.sort(key=lambda x: x[0])
        return flat

    seen = set()
    digests = set()
    frontier = []
    for st in check.initial_states():
        res.transitions += 1
        c = check.canon(st)
        if c in seen:
            continue
        seen.add(c)
        frontier.append(st)
    bound = check.bound()
    cap = check.max_states()
    all_results = []
    keep_results = type(check).finalize is not Check.finalize     # only cross-state oracles need them
    nontriv_keys = set()
    try:
        for depth in range(bound + 1):
            if not frontier:
                res.closed = True     # no unexplored successor is left: the reachable space is complete below the bound
                break
            if cap and res.states + len(frontier) > cap:
                res.caps.append(f"state cap {cap} hit at depth {depth}: {len(frontier)} frontier states, "
                                f"{cap - res.states} evaluated")
                frontier = frontier[: max(0, cap - res.states)]
                res.exhaustive = False
            res.states += len(frontier)
            outs = pmap(_eval_chunk, list(enumerate(frontier)))
            expand = []
            lvl_viol = 0
            for (idx, packed) in outs:
                o = Outcome.unpack(packed)
                st = frontier[idx]
                res.evaluations += 1
                res.outcomes.add(o.key)
                if o.nontrivial:
                    k = check.canon(st)
                    if k not in nontriv_keys:
                        nontriv_keys.add(k)
                for k, v in o.counters.items():
                    res.counters[k] = res.counters.get(k, 0) + v
                for sig, msg in o.violations:
                    res.violations.append((sig, msg, st, depth))
                    lvl_viol += 1
                if len(res.samples) < 4 or (o.nontrivial and len(res.samples) < 8):
                    res.samples.append({"depth": depth, "state": check.describe(st),
                                        "outcome": _short(o.note if o.note is not None else o.key)})
                if keep_results:
                    all_results.append((st, o))
                if o.digest is not None:
                    if o.digest in digests:
                        continue   # reached state already explored: do not expand again
                    digests.add(o.digest)
                expand.append((idx, st))
            res.levels.append({"depth": depth, "states": len(frontier), "violations": lvl_viol})
            res.depth_completed = depth
            if progress:
                print(f"[{check.id}] depth {depth}: {len(frontier)} states, {lvl_viol} violations, "
                      f"{time.time() - t0:.1f}s", file=sys.stderr, flush=True)
            if depth == bound:
                break
            nxt = []
            for idx, succ in pmap(_succ_chunk, expand):
                for lab, ch, c in succ:
                    res.transitions += 1
                    if c in seen:
                        continue
                    seen.add(c)
                    nxt.append(ch)
            frontier = nxt
        for sig, msg, st in check.finalize(all_results):
            res.violations.append((sig, msg, st, -1))
    finally:
        if pool:
            pool.terminate()
            pool.join()
        shutil.rmtree(tmproot, ignore_errors=True)
        os.environ.pop("VERIF_TMPROOT", None)
    res.nontrivial = len(nontriv_keys)
    res.wall = time.time() - t0
    res.check = check
    return res


def _short(x, n=600):
    try:
        s = json.dumps(x, default=repr)
    except Exception:
        s = repr(x)
    if len(s) > n:
        return s[:n] + "…"
    try:
        return json.loads(s)
    except Exception:
        return s


def write_replay(root, pid, module, tier, seed, sig, msg, state, check):
    os.makedirs(os.path.join(root, "replays"), exist_ok=True)
    blob = pickle.dumps(state, protocol=4)
    h = hashlib.sha1(sig.encode() + blob).hexdigest()[:12]
    path = os.path.join(root, "replays", f"{pid}-{h}.json")
    with open(path, "w") as f:
        json.dump({
            "property": pid, "module": module, "tier": tier, "seed": seed,
            "signature": sig, "message": msg[-3000:],
            "state_repr": check.describe(state),
            "state_pickle_b64": base64.b64encode(blob).decode(),
        }, f, indent=1)
    return path


def replay(path):
    """Re-executes a stored state twice on the real implementation; identical observations
    are required before the failure is reported."""
    from . import repo

    repo.setup()
    with open(path) as f:
        d = json.load(f)
    check = _load(d["module"], d.get("tier", "quick"), d.get("seed", 0))
    check.worker_setup()
    state = pickle.loads(base64.b64decode(d["state_pickle_b64"]))
    global _CHECK
    _CHECK = check
    o1 = Outcome.unpack(_eval_chunk([(0, state)])[0][1])
    o2 = Outcome.unpack(_eval_chunk([(0, state)])[0][1])
    s1 = sorted(s for s, _ in o1.violations)
    s2 = sorted(s for s, _ in o2.violations)
    if s1 != s2 or o1.key != o2.key:
        raise RuntimeError(f"replay diverged: {s1} / {s2}; keys {o1.key!r} / {o2.key!r}")
    return d, o1
