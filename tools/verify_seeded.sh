#!/bin/bash
# tools/verify_seeded.sh <seed id> <property ids for my checks...>
# Confirms a seeded change in a scratch worktree: patch applies, demo fails with it and passes without it,
# the unedited test suite passes with it; then runs the given quick checks against the patched tree.
SID=$1; shift
S=/verif/seeded/$SID
D=/tmp/seedwt-$SID
rm -rf $D; /verif/tools/wt.sh new $D || exit 3
LOG=$S/verify.log; : > $LOG
cd $D
cp $S/demo.py $D/demo.py 2>/dev/null
/venv/bin/python demo.py > /tmp/demo_$SID.out 2>&1; echo "demo on clean tree: exit $?" | tee -a $LOG
git apply $S/patch.diff || { echo "PATCH DOES NOT APPLY" | tee -a $LOG; /verif/tools/wt.sh rm $D; exit 3; }
/venv/bin/python demo.py > /tmp/demo_$SID.out2 2>&1; echo "demo with the change: exit $?" | tee -a $LOG
tail -3 /tmp/demo_$SID.out2 >> $LOG
if [ -z "$SKIP_SUITE" ]; then
  /venv/bin/python -m pytest -q -p no:cacheprovider -n ${NJ:-8} 2>&1 | tail -1 | tee $S/suite.log | tee -a $LOG
elif [ -f $S/suite.log ]; then
  cat $S/suite.log >> $LOG
fi
for id in "$@"; do
  echo "--- check $id (quick) on the changed tree" | tee -a $LOG
  VERIF_REPO=$D /verif/bin/check $id --tier quick --no-evidence 2>/dev/null | grep -E "VIOLATION|signature|tier=" | head -8 | tee -a $LOG
done
cd /verif; /verif/tools/wt.sh rm $D
