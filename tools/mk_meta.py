"""Writes seeded/<id>/meta.json from verify.log plus the hand-written table below."""
import json, os, re, sys
ROOT = "/verif/seeded"
INFO = {
 "S-C02-1": ("C02", "major.py reference-site rule treats a del..ins.. core variant as an insertion (\"ins\" not in op)", "a called major allele whose core variants include a deletion-insertion (CYP2A6*27 is the only shipped one)", "missed at first (no del-ins in the generated table); caught after the 'richd' table with a del-ins allele was added to C02/C13/C15"),
 "S-C03-1": ("C03", "cn.py offers max_cn-2 instead of max_cn-1 extra default copies", "a depth vector for exactly max_cn+1 gene copies with a small max_cn given to solve_cn_model", "caught as written"),
 "S-C04-1": ("C04", "minor.py merges CSINGLE/CSINGLEFULL and drops the (one kept + one added) case", "an allele that carries a variant at a site where exactly one other considered variant exists, both supported", "caught as written"),
 "S-C05-1": ("C05", "lpinterface gap cut-off compares with SOLUTION_PRECISION (1e-2) instead of SOLVER_PRECISON (1e-5)", "a feasible assignment whose objective exceeds the bound by 1e-5..1e-2 and is not a superset of a yielded one", "missed at first (objective alphabet had no near-ties); caught after the 'fine' penalty pattern (0.004, 0.009, ...) was added"),
 "S-C06-1": ("C06", "sam._in_region only accepts reads whose start or end lies inside the region", "an alignment that contains the whole locus and overhangs it on both sides", "missed at first; caught after a locus-spanning read was added to the C06 menu and the C07 awkward set"),
 "S-C07-1": ("C07", "sam._make_coverage overwrites instead of merging observations relabelled to reference outside the RefSeq span", "a read with a deletion inside a gene region outside the RefSeq-mapped part (pseudogene)", "missed at first; caught after pseudogene-located awkward reads were added to C07 and a pseudogene file family to C06"),
 "S-C09-1": ("C09", "gene.py name uniquifying reuses ':2' for the third and later colliding major allele", "three or more majors of one number whose label equals the used prefix", "missed at first; caught after the name-collision family (3-4 alleles of one number, labelled) was added to C09"),
 "S-C10-1": ("C10", "estimate_minor takes the carry-over baseline per structure group instead of over all candidates", "gap > 0, two structures surviving, different best major scores per structure", "caught as written"),
 "S-C11-1": ("C11", "diplotype sort keys cached by major id instead of copy index", "two copies of one major that differ in their novel core variants", "caught as written"),
 "S-C12-1": ("C12", "write_decomposition shares the definition set between copies of the same minor", "a solution repeating a minor allele where an earlier copy has added/lost variants", "caught as written"),
 "S-C13-1": ("C13", "gene.py drops the position shift of multi-base substitutions on the - strand", "a - strand build, a catalogued MNV, a sample carrying it", "caught by C08 and C01 as written; C13 caught it after all alignment-level samples were put into the quick tier"),
 "S-C14-1": ("C14", "estimate_minor accumulates candidate variants into gene.random_mutations in place", "two minor-stage calls on one Gene object, or comparing the catalogue with a fresh load", "caught as written"),
 "S-C15-1": ("C15", "major._filter_alleles applies the first threshold on the unfiltered coverage", "a site with exactly one qualifying reference read plus low-quality reads", "missed at first; caught after the lone-reference-read deviation was added to C15"),
 "S-C16-1": ("C16", "VCF deletion op built from the record's REF instead of the RefSeq-derived reference", "a deletion record whose REF differs from the reference in a deleted base", "missed at first; caught after the 'delref' encoding was added to C16"),
 "S-C02-2": ("C02", "Coverage.single_copy cached on the evidence object keyed by the variant only (the structure is ignored); filtered copies share the cache", "the same Coverage object solved under two structures whose copy number differs at a core-variant site (what genotype() does when structures compete)", "missed at first (a fresh evidence object per state); caught after a third of the C02 states first solve the same evidence object under another structure"),
 "S-C07-2": ("C07", "shipped profile YAMLs parsed through functools.lru_cache; the custom-neutral-region branch edits the shared dict", "one process, illumina/wgs profile, a load with a custom neutral region followed by a load with the default region", "missed by C07 (generated profiles only); caught by C14's profile/sample-load histories through the shipped profile"),
 "S-C12-2": ("C12", "write_vcf keeps the deletion anchor offset for every later record", "VCF output of a solution with a plain deletion and any variant at a higher position", "caught as written"),
 "S-C16-2": ("C16", "the VCF MNV fold-up deletes all support of a component substitution instead of the folded copies", "a catalogued MNV whose first base change is also catalogued as a substitution of its own, with different zygosity of the two", "missed at first; caught after the richd table got a substitution equal to the MNV's first base change (*17) and C16 moved to that table"),
 "S-C17-2": ("C17", "re-introduces the aliasing of the dumped reference lists (reverts the D14 fix)", "reads with a deletion in a gene region outside the RefSeq mapping, run then replay", "caught as written (evidence-level replay oracle)"),
 "S-C05-2": ("C05", "CBC.is_binary cached per variable name in a class-level dict shared by all models", "two models in one process that reuse a variable name with a different kind (integer vs binary)", "missed at first (all variable names had one kind); caught after models with a general-integer variable under the usual name were added to C05"),
 "S-C09-2": ("C09", "Gene.get_functional memoized in a module-level dict keyed by (gene name, position, op) without the database identity", "two same-named databases in one process that label a shared variant differently", "missed at first (the variant menu had consistent labels); caught after an unlabelled twin of a labelled variant was added to the table menu"),
 "S-C11-2": ("C11", "get_major_name resolves the placeholder index -1 by list indexing (wraps to the last copy) instead of the explicit test", "exactly one called copy in a gene with a whole-gene-deletion allele", "caught as written"),
 "S-C15-2": ("C15", "Coverage.quality_filter caches pass/fail per (profile name, quality pair), ignoring the thresholds", "two filterings in one process with the same profile name, different thresholds, and reads whose quality lies between them", "missed at first (every low-quality pair sat just below its own threshold); caught after qualities between the two threshold settings were added in both roles"),
 "S-C08-2": ("C08", "minus-strand del..ins.. position shifted by the inserted instead of the deleted length", "a minus-strand gene with a deletion-insertion whose parts differ in length (CYP2A6 only among the shipped ones)", "caught as written"),
 "S-C18-2": ("C18", "Profile.load lets the options section of the profile file overwrite the user's parameters", "the same parameter both in the loaded profile's options section and given by the user", "missed at first; caught after the 'override' states (file says one value, user gives another) were added to C18"),
 "S-C19-2": ("C19", "the average-depth guard compares with min_coverage instead of min_avg_coverage", "min_avg_coverage configured away from min_coverage and a depth between the two", "missed at first; caught after states with min_avg_coverage=10 at 3x and 40x were added to C19"),
 "S-C01-3": ("C01", "the in-gene bounds test of coverage assembly became half-open (pos < max mapped coordinate)", "a catalogued substitution exactly on the last mapped genome base (last RefSeq base on +, first on -)", "missed at first; caught (C01, C06) after variants on the first and last RefSeq base were added to the rich tables and boundary-base mismatch reads to the C06 menu"),
 "S-C02-3": ("C02", "two cooperating edits in solve_major_model: copy ordering only from the third copy on, and the OR lower bound only for the first copy of a carrier", "two copies of a configuration, an unexplained core variant already paying the novelty penalty, another variant observed above its carriers", "caught as written (carried-xor-novel)"),
 "S-C04-3": ("C04", "two cooperating edits: prod() gained a tight=False mode, and the phasing block uses it for both product kinds", "read-phase evidence with a reference (or other-allele) observation where a candidate allele carries a variant", "caught as written"),
 "S-C13-3": ("C13", "coverage assembly leaves out the highest mapped genomic coordinate (range(min, max))", "a catalogued variant on the first or last RefSeq base, two builds with opposite strands", "missed by C13 at first (caught by C06 after the boundary reads were added); caught by C13 after alignment-level samples with the boundary alleles were added"),
 "S-C01-2": ("C01", "the generated N-padded reference for indel realignment is cached per process keyed by (contig name, length)", "two genotyping calls in one process for different genes on the same contig, the second sample carrying a catalogued indel", "caught as written (worker processes evaluate several generated databases on contig 7)"),
 "S-C03-2": ("C03", "estimate_cn checks the no-copy-number fallback before the user-supplied structure", "a user-supplied list other than 1,1 for a gene without structural alleles or with the exome profile", "missed at first; caught after user lists on genes without copy-number calling (CYP2C19, G6PD, toy in exome mode) were added to C03"),
 "S-C06-2": ("C06", "Sample.__init__ takes the multi-substitution table from a module-level cache keyed by gene name", "two Samples of same-named genes with different MNV sites in one process, the later one with reads showing a complete MNV", "caught as written (file states of both builds share worker processes)"),
 "S-C04-2": ("C04", "Gene.has_coverage memoized in a module-level dict keyed by (allele name, position) without the gene", "two Gene objects in one process sharing an allele name and coordinates but differing in structure", "missed by C04 (one gene per state) and by C14 at first; caught by C14 after a second gene with swapped fusion break points is held in the history context and its members are part of the operation alphabet"),
 "S-C10-2": ("C10", "solve_minor_model hoists `solution = []` out of the enumeration loop: all refinements of one major solution share one allele list", "max_minor_solutions >= 2 and a second optimal refinement", "caught as written (chain consistency on recorded real samples with max_minor_solutions=3)"),
 "S-C13-2": ("C13", "Gene._init_regions fills the position->region table through a helper with a mutable default argument: all Gene objects share one table", "two builds loaded in one process whose loci overlap numerically, structure with regions of different copy number", "missed at first (the overlapping stretch of the generated builds was symmetric); caught after the hg38 offsets were moved so that the loci overlap by 400 bases"),
 "S-C14-2": ("C14", "Profile.load caches the parsed profile YAML per path and the custom-neutral-region branch edits the cached dict", "same process, 'illumina' profile, a call with a custom neutral region followed by one without", "missed at first; caught after histories of profile/sample loads and genotype() calls through the shipped profile with different neutral regions were added to C14"),
 "S-C08-1": ("C08", "gene.get_refseq reads the strand-adjusted position slot instead of the written one", "a - strand gene and a variant whose anchor moves under the strand flip (insertion, multi-base deletion, MNV, del-ins)", "caught as written"),
 "S-C17-1": ("C17", "dump writer keeps only fragments linking more than two database positions (len > 2)", "phasing decisive and the linking reads cover exactly two database sites", "caught as written (the phase-decisive paired samples)"),
 "S-C18-1": ("C18", "Profile.update skips falsy values (if v and ...) instead of only None", "a native falsy value (False, 0, 0.0, '') for a parameter, incl. options in a profile file and the write->load round trip", "caught as written"),
 "S-C19-1": ("C19", "_load_sam applies the locus filter only for unindexed input", "an indexed BAM with reads stacked in the 500 bases before the locus and none in it, with a user-supplied structure / no CN calling", "missed at first; caught after the 'pad' read placement was added to C19"),
 "S-C01-1": ("C01", "sam._parse_read counts a merged MNV also as reference at its first position", "two or more copies carrying a functional MNV allele (BAM input)", "caught as written (C01 and C06)"),
}
for sid in sorted(os.listdir(ROOT)):
    d = os.path.join(ROOT, sid)
    if sid not in INFO or not os.path.isdir(d):
        continue
    prop, what, needs, status = INFO[sid]
    log = open(os.path.join(d, "verify.log")).read() if os.path.exists(os.path.join(d, "verify.log")) else ""
    checks = {}
    cur = None
    for line in log.splitlines():
        m = re.match(r"--- check (C\d+)", line)
        if m:
            cur = m.group(1); checks[cur] = {"violations": 0, "signatures": []}
        elif cur and line.startswith("VIOLATION"):
            checks[cur]["violations"] += 1
        elif cur and "signature:" in line:
            checks[cur]["signatures"].append(line.split("signature:")[1].strip())
    suite = re.findall(r"(\d+ passed[^\n]*)", log)
    if os.path.exists(os.path.join(d, "suite.log")):
        suite = re.findall(r"(\d+ passed[^\n]*)", open(os.path.join(d, "suite.log")).read()) or suite
    meta = {
        "id": sid, "breaks_property": prop, "origin": "independent sub-agent given only the property text and a scratch worktree",
        "change": what, "needs_to_manifest": needs,
        "files": ["patch.diff", "demo.py", "NOTES.md", "verify.log"],
        "confirmed_in_scratch_worktree": {
            "demo_exit_on_clean_tree": int(re.search(r"demo on clean tree: exit (\d+)", log).group(1)) if "demo on clean tree" in log else None,
            "demo_exit_with_change": int(re.search(r"demo with the change: exit (\d+)", log).group(1)) if "demo with the change" in log else None,
            "test_suite_with_change": suite[-1] if suite else "see NOTES.md (run by the sub-agent); re-run pending",
            "command": "tools/verify_seeded.sh " + sid + " " + " ".join(checks),
        },
        "quick_checks_on_changed_tree": {k: ("caught: " + "; ".join(v["signatures"][:3])) if v["violations"] else "silent" for k, v in checks.items()},
        "detection": status,
    }
    json.dump(meta, open(os.path.join(d, "meta.json"), "w"), indent=1)
    print(sid, meta["confirmed_in_scratch_worktree"]["test_suite_with_change"], meta["quick_checks_on_changed_tree"])
