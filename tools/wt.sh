#!/bin/bash
# tools/wt.sh new <dir>        scratch worktree of /repo HEAD incl. compiled extension modules
# tools/wt.sh rm <dir>         remove it
set -e
case "$1" in
 new) git -C /repo worktree add -q --detach "$2" HEAD
      cp /repo/aldy/indelpost/*.so "$2/aldy/indelpost/" ;;
 rm)  git -C /repo worktree remove --force "$2" ;;
esac
