#!/bin/bash
# tools/try_mutant.sh <patch> <check ids...>   apply a patch to a scratch worktree, run quick checks there
P=$(readlink -f "$1"); shift
D=$(mktemp -d /tmp/mut-XXXXXX); rmdir $D
/verif/tools/wt.sh new $D
( cd $D && git apply "$P" ) || { echo "PATCH FAILED"; /verif/tools/wt.sh rm $D; exit 3; }
for id in "$@"; do
  echo "=== $id on $(basename $P)"
  VERIF_REPO=$D /verif/bin/check $id --tier ${TIER:-quick} --no-evidence 2>/dev/null | grep -E "VIOLATION|KNOWN|signature|HARNESS|tier=" | head -${LINES_MAX:-8}
done
/verif/tools/wt.sh rm $D
