#!/bin/bash
# tools/sweep.sh <tier> <seeds...>   runs every claimed check; prints rc and wall per check
TIER=$1; shift
for seed in "$@"; do
  for id in $(python3 -c "import json;print(' '.join(c['property_id'] for c in json.load(open('/verif/MANIFEST.json'))['checks']))"); do
    s=$(date +%s)
    VERIF_SEED=$seed /verif/bin/check $id --tier $TIER > /tmp/sweep_${TIER}_${seed}_$id.log 2>&1
    rc=$?
    e=$(date +%s)
    echo "seed=$seed $id rc=$rc wall=$((e-s))s $(grep -c '^VIOLATION' /tmp/sweep_${TIER}_${seed}_$id.log) violations $(grep -c 'KNOWN-FINDING' /tmp/sweep_${TIER}_${seed}_$id.log) known"
  done
done
