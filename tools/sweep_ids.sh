#!/bin/bash
# tools/sweep_ids.sh <tier> <seed> <ids...>
TIER=$1; SEED=$2; shift 2
for id in "$@"; do
  s=$(date +%s)
  VERIF_SEED=$SEED /verif/bin/check $id --tier $TIER > /tmp/sweep_${TIER}_${SEED}_$id.log 2>&1
  rc=$?; e=$(date +%s)
  echo "seed=$SEED $id rc=$rc wall=$((e-s))s $(grep -c '^VIOLATION' /tmp/sweep_${TIER}_${SEED}_$id.log) violations $(grep -c 'KNOWN-FINDING' /tmp/sweep_${TIER}_${SEED}_$id.log) known $(grep -o 'states=[0-9]*' /tmp/sweep_${TIER}_${SEED}_$id.log | tail -1)"
done
