#!/usr/bin/env python3
"""Rewrites the states / wall columns of the DESIGN.md section 9.2 table from evidence/*.json (quick tier runs)."""
import json, re, glob, os
root = os.path.dirname(os.path.dirname(os.path.abspath(__file__)))
ev = {}
for f in glob.glob(os.path.join(root, "evidence", "C*.json")):
    d = json.load(open(f))
    if d.get("tier") == "quick":
        ev[d["property_id"]] = d
p = os.path.join(root, "DESIGN.md")
lines = open(p).read().split("\n")
out = []
inside = False
for ln in lines:
    if ln.startswith("### 9.2"):
        inside = True
    elif ln.startswith("### 9.3"):
        inside = False
    m = inside and re.match(r"^\| (C\d\d) \| (.*) \| ([^|]*) \| ([^|]*) \| ([^|]*) \|$", ln)
    if m and m.group(1) in ev:
        d = ev[m.group(1)]
        st = f"{d['coverage']['states']:,}".replace(",", " ")
        extra = re.search(r"\(.*\)", m.group(3))
        ln = f"| {m.group(1)} | {m.group(2)} | {st}{(' ' + extra.group(0)) if extra else ''} | {round(d['wall_s'])} s | {m.group(5)} |"
    out.append(ln)
open(p, "w").write("\n".join(out))
print("refreshed", sorted(ev))
