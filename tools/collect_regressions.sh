#!/bin/bash
# For each reverted fix: run the check on the reverted tree and keep one replay file per signature as a regression.
while read diff id; do
  D=$(mktemp -d /tmp/reg-XXXXXX); rmdir $D
  /verif/tools/wt.sh new $D
  ( cd $D && git apply /verif/mutants/$diff ) || { echo "PATCH FAILED $diff"; /verif/tools/wt.sh rm $D; continue; }
  VERIF_REPO=$D /verif/bin/check $id --tier quick --no-evidence 2>/dev/null | grep "^VIOLATION" | head -3 | while read _ _ rp; do
     f=${rp#replay=}; cp $f /verif/regressions/$(basename $diff .diff)__$(basename $f); echo "kept $f for $diff"
  done
  /verif/tools/wt.sh rm $D
done <<LIST
D1_revert_bool_params.diff C18
D2_revert_mutations_accessor.diff C14
D3_revert_minor_filter.diff C14
D4_revert_nodata_guard.diff C19
D5_revert_vcf_fixes.diff C16
D14_revert_dump_double_count.diff C17
LIST
