#!/bin/bash
# Re-runs the designated quick checks against every seeded change (scratch worktrees, no test suite) and prints caught/missed.
while read sid checks; do
  SKIP_SUITE=1 /verif/tools/verify_seeded.sh $sid $checks > /tmp/matrix_$sid.log 2>&1
  for c in $checks; do
    n=$(awk "/--- check $c /{f=1;next} /--- check /{f=0} f && /^VIOLATION/" /tmp/matrix_$sid.log | wc -l)
    echo "$sid $c $([ $n -gt 0 ] && echo caught || echo MISSED)"
  done
done < /verif/tools/seeded_map.txt
